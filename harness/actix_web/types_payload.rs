// crate: actix-web
// module: types::payload::verif_kani
//
// C12 O-1 — the limit-enforcing collection loop of the bytes/string extractor
// (`HttpMessageBody::{limit, poll}`), built field by field over a harness stream.
// actix-web is compiled with --no-default-features, so `stream` is a plain `dev::Payload`.
use super::*;
use core::mem::forget;
use std::task::{RawWaker, RawWakerVTable, Waker};

static POOL: [u8; 16] = [7, 1, 8, 2, 8, 1, 8, 2, 8, 4, 5, 9, 0, 4, 5, 2];

/// Yields `n` chunks (slices of POOL, lengths concrete per harness) with an optional Pending before
/// each one; counts how often it was polled.
struct Chunks {
    lens: [usize; 3],
    n: usize,
    i: usize,
    off: usize,
    pend: [bool; 3],
    polls: *mut u32,
}

impl Stream for Chunks {
    type Item = Result<Bytes, PayloadError>;
    fn poll_next(self: Pin<&mut Self>, _cx: &mut Context<'_>) -> Poll<Option<Self::Item>> {
        let this = self.get_mut();
        unsafe { *this.polls += 1 };
        if this.i == this.n {
            return Poll::Ready(None);
        }
        if this.pend[this.i] {
            this.pend[this.i] = false;
            return Poll::Pending;
        }
        let l = this.lens[this.i];
        let b = Bytes::from_static(&POOL[this.off..this.off + l]);
        this.off += l;
        this.i += 1;
        Poll::Ready(Some(Ok(b)))
    }
}

unsafe fn vt_clone(p: *const ()) -> RawWaker {
    RawWaker::new(p, &VT)
}
unsafe fn vt_noop(_: *const ()) {}
static VT: RawWakerVTable = RawWakerVTable::new(vt_clone, vt_noop, vt_noop, vt_noop);

/// chunk lengths concrete (a symbolic length in `extend_from_slice` is what CBMC cannot digest),
/// `limit` and the declared Content-Length symbolic, Pending pattern symbolic.
fn body_lemma(lens: [usize; 3], n: usize) {
    let total: usize = lens[0] + lens[1] + lens[2];
    let limit: usize = kani::any();
    kani::assume(limit <= 20);
    let declared: Option<usize> = if kani::any() { Some(kani::any()) } else { None };
    let mut polls: u32 = 0;
    let chunks = Chunks { lens, n, i: 0, off: 0, pend: kani::any(), polls: &mut polls };
    let stream: dev::Payload = dev::Payload::Stream { payload: Box::pin(chunks) };
    let body = HttpMessageBody { limit: 262_144, length: declared, stream, buf: BytesMut::new(), err: None };
    // the public way to configure the limit (re-validates the declared length)
    let mut body = body.limit(limit);

    let waker = unsafe { Waker::from_raw(RawWaker::new(core::ptr::null(), &VT)) };
    let mut cx = Context::from_waker(&waker);
    let mut out = Poll::Pending;
    let mut k = 0;
    while k < 4 {
        if out.is_pending() {
            assert!(body.buf.len() <= limit, "never buffers more than the limit");
            out = Pin::new(&mut body).poll(&mut cx);
        }
        k += 1;
    }
    match &out {
        Poll::Pending => assert!(false, "3 chunks with at most 3 Pendings finish within 4 polls"),
        Poll::Ready(Ok(b)) => {
            assert!(total <= limit, "accepted only if the whole body is within the limit");
            assert!(declared.map_or(true, |d| d <= limit), "a declared length over the limit is never accepted");
            assert!(b.len() == total, "body is the concatenation of the chunks");
            let mut i = 0;
            while i < 16 {
                if i < total {
                    assert!(b[i] == POOL[i], "bytes exact and in order");
                }
                i += 1;
            }
        }
        Poll::Ready(Err(e)) => {
            assert!(matches!(e, PayloadError::Overflow), "the only failure is the overflow error");
            assert!(total > limit || declared.is_some_and(|d| d > limit), "overflow only if over the limit");
            if declared.is_some_and(|d| d > limit) {
                assert!(polls == 0, "declared Content-Length over the limit fails before the stream is read");
            }
        }
    }
    assert!(body.buf.len() <= limit, "never holds more than the limit");
    kani::cover!(matches!(out, Poll::Ready(Ok(_))) && total == limit, "body exactly at the limit accepted");
    kani::cover!(matches!(out, Poll::Ready(Err(_))) && total == limit + 1 && declared.is_none(), "one byte over, undeclared");
    kani::cover!(matches!(out, Poll::Ready(Err(_))) && polls == 0, "declared over the limit");
    kani::cover!(matches!(out, Poll::Ready(Err(_))) && declared.is_some_and(|d| d <= limit), "lying Content-Length");
    kani::cover!(true, "harness end reached");
    forget(out);
    forget(body);
}

#[kani::proof]
#[kani::unwind(18)]
fn c12_bytes_extractor_split_3_2_4() {
    body_lemma([3, 2, 4], 3);
}

#[kani::proof]
#[kani::unwind(18)]
fn c12_bytes_extractor_split_5_4() {
    // same 9 bytes, different chunking: the outcome (as a function of limit) is the same predicate
    body_lemma([5, 4, 0], 2);
}

#[kani::proof]
#[kani::unwind(18)]
fn c12_bytes_extractor_single_and_empty() {
    body_lemma([9, 0, 0], 1);
    body_lemma([0, 0, 0], 0);
}

#[cfg(test)]
mod playback {
    #[allow(unused_imports)]
    use super::*;
    include!(concat!(env!("VERIF_PLAYBACK"), "/actix_web__types_payload.rs"));
}
