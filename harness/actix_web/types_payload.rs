// crate: actix-web
// module: types::payload::verif_kani::nc
//
// C12 O-1 — the limit-enforcing collection loop of the bytes/string extractor
// (`HttpMessageBody::{limit, poll}`), built field by field over a harness stream.
// actix-web is compiled with --no-default-features, so `stream` is a plain `dev::Payload`.
// Everything lives in a module that only exists without the compression features: with them the
// extractor's `stream` field is a `Decompress<Payload>` and this file must still compile (actix-web is
// built with default features as a dev-dependency when another crate's counterexample is replayed).
#[cfg(not(feature = "__compress"))]
mod nc {
use super::super::*;
use core::mem::forget;
use std::task::{RawWaker, RawWakerVTable, Waker};

static POOL: [u8; 16] = [7, 1, 8, 2, 8, 1, 8, 2, 8, 4, 5, 9, 0, 4, 5, 2];

/// Yields `N` chunks (slices of POOL, lengths concrete per harness) with an optional Pending before
/// each one; counts how often it was polled.  The stream object itself is a zero-sized type and all of
/// its state lives in scalar statics: a stateful struct behind `Pin<Box<dyn Stream>>` is a heap object,
/// which CBMC treats byte-wise (the first version of this harness ran >35 min / 11 GB).
struct Chunks;
static mut LENS: [usize; 3] = [0; 3];
static mut N: usize = 0;
static mut I: usize = 0;
static mut OFF: usize = 0;
static mut PEND0: bool = false;
static mut PEND1: bool = false;
static mut PEND2: bool = false;
static mut POLLS: u32 = 0;

impl Stream for Chunks {
    type Item = Result<Bytes, PayloadError>;
    fn poll_next(self: Pin<&mut Self>, _cx: &mut Context<'_>) -> Poll<Option<Self::Item>> {
        unsafe {
            POLLS += 1;
            if I == N {
                return Poll::Ready(None);
            }
            let pend = match I {
                0 => &mut PEND0,
                1 => &mut PEND1,
                _ => &mut PEND2,
            };
            if *pend {
                *pend = false;
                return Poll::Pending;
            }
            let l = LENS[I];
            let b = Bytes::from_static(&POOL[OFF..OFF + l]);
            OFF += l;
            I += 1;
            Poll::Ready(Some(Ok(b)))
        }
    }
}

unsafe fn vt_clone(p: *const ()) -> RawWaker {
    RawWaker::new(p, &VT)
}
unsafe fn vt_noop(_: *const ()) {}
static VT: RawWakerVTable = RawWakerVTable::new(vt_clone, vt_noop, vt_noop, vt_noop);

/// chunk lengths concrete (a symbolic length in `extend_from_slice` is what CBMC cannot digest),
/// `limit` and the declared Content-Length symbolic, Pending pattern symbolic.
fn body_lemma(lens: [usize; 3], n: usize) {
    let total: usize = lens[0] + lens[1] + lens[2];
    let limit: usize = kani::any();
    kani::assume(limit <= 20);
    let declared: Option<usize> = if kani::any() { Some(kani::any()) } else { None };
    unsafe {
        LENS = lens;
        N = n;
        I = 0;
        OFF = 0;
        PEND0 = kani::any();
        PEND1 = kani::any();
        PEND2 = kani::any();
        POLLS = 0;
    }
    let stream: dev::Payload = dev::Payload::Stream { payload: Box::pin(Chunks) };
    let body = HttpMessageBody { limit: 262_144, length: declared, stream, buf: BytesMut::new(), err: None };
    // the public way to configure the limit (re-validates the declared length)
    let mut body = body.limit(limit);

    let waker = unsafe { Waker::from_raw(RawWaker::new(core::ptr::null(), &VT)) };
    let mut cx = Context::from_waker(&waker);
    let mut out = Poll::Pending;
    let mut k = 0;
    while k < 4 {
        if out.is_pending() {
            assert!(body.buf.len() <= limit, "never buffers more than the limit");
            out = Pin::new(&mut body).poll(&mut cx);
        }
        k += 1;
    }
    match &out {
        Poll::Pending => assert!(false, "3 chunks with at most 3 Pendings finish within 4 polls"),
        Poll::Ready(Ok(b)) => {
            assert!(total <= limit, "accepted only if the whole body is within the limit");
            assert!(declared.map_or(true, |d| d <= limit), "a declared length over the limit is never accepted");
            assert!(b.len() == total, "body is the concatenation of the chunks");
            let mut i = 0;
            while i < total {
                assert!(b[i] == POOL[i], "bytes exact and in order");
                i += 1;
            }
        }
        Poll::Ready(Err(e)) => {
            assert!(matches!(e, PayloadError::Overflow), "the only failure is the overflow error");
            assert!(total > limit || declared.is_some_and(|d| d > limit), "overflow only if over the limit");
            if declared.is_some_and(|d| d > limit) {
                assert!(unsafe { POLLS } == 0, "declared Content-Length over the limit fails before the stream is read");
            }
        }
    }
    assert!(body.buf.len() <= limit, "never holds more than the limit");
    kani::cover!(matches!(out, Poll::Ready(Ok(_))) && total == limit, "body exactly at the limit accepted");
    kani::cover!(matches!(out, Poll::Ready(Err(_))) && total == limit + 1 && declared.is_none(), "one byte over, undeclared");
    kani::cover!(matches!(out, Poll::Ready(Err(_))) && unsafe { POLLS } == 0, "declared over the limit");
    kani::cover!(matches!(out, Poll::Ready(Err(_))) && declared.is_some_and(|d| d <= limit), "lying Content-Length");
    kani::cover!(true, "harness end reached");
    forget(out);
    forget(body);
}

#[kani::proof]
#[kani::unwind(11)]
fn c12_bytes_extractor_split_3_2_4() {
    body_lemma([3, 2, 4], 3);
}

#[kani::proof]
#[kani::unwind(11)]
fn c12_bytes_extractor_split_5_4() {
    // same 9 bytes, different chunking: the outcome (as a function of limit) is the same predicate
    body_lemma([5, 4, 0], 2);
}

#[kani::proof]
#[kani::unwind(11)]
fn c12_bytes_extractor_single_and_empty() {
    body_lemma([9, 0, 0], 1);
    body_lemma([0, 0, 0], 0);
}

#[cfg(test)]
mod playback {
    #[allow(unused_imports)]
    use super::*;
    include!(concat!(env!("VERIF_PLAYBACK"), "/actix_web__types_payload.rs"));
}
} // mod nc
