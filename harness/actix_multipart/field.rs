// crate: actix-multipart
// module: field::verif_kani
//
// C15 — multipart field-content scanner (`InnerField::read_stream`), sized fields (`read_len`) and the
// line readers of `PayloadBuffer`, against the RFC 2046 delimiter  CRLF "--" boundary.
use super::*;
use crate::payload::PayloadBuffer;
use core::mem::forget;

struct NoStream;
impl Stream for NoStream {
    type Item = Result<Bytes, actix_web::error::PayloadError>;
    fn poll_next(self: Pin<&mut Self>, _: &mut Context<'_>) -> Poll<Option<Self::Item>> {
        Poll::Pending
    }
}

const MAXN: usize = 8;

fn buffer(bytes: &[u8; MAXN], n: usize, eof: bool) -> PayloadBuffer {
    let mut p = PayloadBuffer::new_with_limit(NoStream, 65_536);
    // exact-size buffer: the 1 KiB pre-allocation of new_with_limit makes every symbolic-index read an
    // array-theory problem over 1024 cells (measured: >15 min for 3 bytes)
    p.buf = BytesMut::from(&bytes[..n]);
    p.eof = eof;
    p
}

/// does `b[i..]` start with the delimiter `d`, or (if shorter) is it still a prefix of `d`?
fn could_start(b: &[u8], i: usize, d: &[u8]) -> bool {
    let mut j = 0;
    while j < d.len() && i + j < b.len() {
        if b[i + j] != d[j] {
            return false;
        }
        j += 1;
    }
    true
}

fn starts_with(b: &[u8], d: &[u8]) -> bool {
    b.len() >= d.len() && could_start(b, 0, d)
}

/// One call of the scanner on a buffer of `n` symbolic bytes; `boundary`/`delim` concrete.
fn read_stream_lemma(n: usize, boundary: &'static str, delim: &'static [u8]) {
    let bytes: [u8; MAXN] = kani::any();
    let eof: bool = kani::any();
    let mut p = buffer(&bytes, n, eof);
    let inp = &bytes[..n];

    let r = InnerField::read_stream(&mut p, boundary);

    match &r {
        Poll::Ready(None) => {
            assert!(starts_with(inp, delim), "field ends only at CRLF -- boundary");
            assert!(p.buf.len() == n, "the delimiter itself is left for the boundary reader");
        }
        Poll::Ready(Some(Ok(chunk))) => {
            let k = chunk.len();
            assert!(k >= 1 && k <= n, "data chunk is non-empty");
            let mut i = 0;
            while i < n {
                if i < k {
                    assert!(chunk[i] == inp[i], "content bytes exact and in order");
                    assert!(!could_start(inp, i, delim), "no (possible) delimiter start is ever delivered as content");
                }
                i += 1;
            }
            assert!(p.buf.len() == n - k, "exactly the delivered prefix leaves the buffer");
            let mut i = 0;
            while i < n {
                if i < n - k {
                    assert!(p.buf[i] == inp[k + i], "rest of the buffer untouched");
                }
                i += 1;
            }
        }
        Poll::Ready(Some(Err(_))) => {
            assert!(eof, "content error only at end of input");
            assert!(!starts_with(inp, delim), "a delimiter at the front is not an error");
        }
        Poll::Pending => {
            assert!(!eof, "truncated body must produce an error, not a hang (Pending at eof is never woken)");
            assert!(n < delim.len(), "enough bytes to decide => progress");
            assert!(p.buf.len() == n, "Pending consumes nothing");
        }
    }
    // completeness: a delimiter at the very front always ends the field
    if starts_with(inp, delim) {
        assert!(matches!(r, Poll::Ready(None)), "delimiter at the front ends the field");
    }
    kani::cover!(matches!(r, Poll::Ready(None)), "read_stream: end of field");
    kani::cover!(matches!(r, Poll::Ready(Some(Ok(_)))) && p.buf.len() > 0, "read_stream: chunk before a possible delimiter");
    kani::cover!(matches!(r, Poll::Ready(Some(Ok(_)))) && p.buf.is_empty(), "read_stream: whole buffer is content");
    kani::cover!(r.is_pending(), "read_stream: pending");
    kani::cover!(matches!(r, Poll::Ready(Some(Err(_)))), "read_stream: incomplete");
    kani::cover!(true, "harness end reached");
    forget(r);
    forget(p);
}

/// NOTE: only the instances with an EMPTY buffer are registered (c15_read_len_empty).  With data in
/// the buffer `read_len` reaches `PayloadBuffer::unprocessed` (BytesMut::from + extend_from_slice with
/// lengths CBMC treats as symbolic) and every instance tried ran out of memory (24-55 GB), also with a
/// concrete size; sized fields with data are therefore OUTSIDE the claim.
/// sized field: exactly `size` bytes, then end; eof before that is an error; remainder pushed back.
/// `csize`: concrete size (None = symbolic u64).  With a symbolic size CBMC has to encode the
/// (dead, but not syntactically) `unprocessed()` push-back with symbolic lengths: >50 GB measured.
fn read_len_lemma(n: usize, csize: Option<u64>) {
    let bytes: [u8; MAXN] = kani::any();
    let eof: bool = kani::any();
    let size0: u64 = match csize {
        Some(z) => z,
        None => kani::any(),
    };
    let mut size = size0;
    let mut p = buffer(&bytes, n, eof);
    let r = InnerField::read_len(&mut p, &mut size);
    match &r {
        Poll::Ready(None) => assert!(size0 == 0 && p.buf.len() == n, "sized field ends exactly at its length"),
        Poll::Ready(Some(Ok(c))) => {
            let k = if size0 < n as u64 { size0 as usize } else { n };
            assert!(size0 > 0 && n > 0 && c.len() == k && size == size0 - k as u64, "min(size, available) bytes");
            let mut i = 0;
            while i < n {
                if i < k {
                    assert!(c[i] == bytes[i], "content exact");
                }
                if i < n - k {
                    assert!(p.buf[i] == bytes[k + i], "bytes after the field pushed back intact");
                }
                i += 1;
            }
            assert!(p.buf.len() == n - k);
        }
        Poll::Ready(Some(Err(_))) => assert!(eof && n == 0 && size0 > 0, "Incomplete iff eof before size"),
        Poll::Pending => assert!(!eof && n == 0 && size0 > 0 && size == size0),
    }
    kani::cover!(matches!(r, Poll::Ready(Some(Err(_)))), "read_len: incomplete");
    kani::cover!(true, "harness end reached");
    forget(r);
    forget(p);
}

/// line readers: `readline` returns exactly the prefix up to and including the first LF; without LF:
/// need-more unless eof (then Incomplete; `readline_or_eof` returns the rest).
/// `eof`/`or_eof` concrete per call: dropping a `crate::Error` on a symbolic path makes CBMC encode the
/// drop glue of every variant (boxed dyn ResponseError, io::Error, ...): 19 GB measured for 2 bytes.
fn readline_lemma(n: usize, eof: bool, or_eof: bool) {
    let bytes: [u8; MAXN] = kani::any();
    let mut p = buffer(&bytes, n, eof);
    let r = if or_eof { p.readline_or_eof() } else { p.readline() };
    let mut first_lf = n;
    let mut i = n;
    while i > 0 {
        i -= 1;
        if bytes[i] == b'\n' {
            first_lf = i;
        }
    }
    match &r {
        Ok(Some(line)) => {
            if first_lf < n {
                assert!(line.len() == first_lf + 1, "line ends at the FIRST LF");
            } else {
                assert!(or_eof && eof && line.len() == n, "without LF a line is returned only at eof by readline_or_eof");
            }
            let mut i = 0;
            while i < n {
                if i < line.len() {
                    assert!(line[i] == bytes[i]);
                }
                i += 1;
            }
            assert!(p.buf.len() == n - line.len());
        }
        Ok(None) => assert!(first_lf == n && !eof && p.buf.len() == n, "need more only without LF and before eof"),
        Err(_) => assert!(first_lf == n && eof && !or_eof),
    }
    kani::cover!(matches!(r, Ok(Some(_))) && p.buf.len() > 0, "readline: bytes after the line stay");
    kani::cover!(r.is_err(), "readline: incomplete");
    kani::cover!(true, "harness end reached");
    forget(r);
    forget(p);
}

// ---- harness instances (generated): buffer length concrete, bytes (and eof where affordable) symbolic.
// The unwind bound is n+3 (>= 7): the scanner's `loop` advances `pos` past one CR per iteration, so n+1
// iterations suffice; Kani's unwinding assertion checks that (termination within the bound).
#[kani::proof]
#[kani::unwind(7)]
fn c15_read_stream_boundary1_b0_2() {
    read_stream_lemma(0, "b", b"\r\n--b");
    read_stream_lemma(1, "b", b"\r\n--b");
    read_stream_lemma(2, "b", b"\r\n--b");
}
#[kani::proof]
#[kani::unwind(7)]
fn c15_read_stream_boundary1_b3() {
    read_stream_lemma(3, "b", b"\r\n--b");
}
#[kani::proof]
#[kani::unwind(7)]
fn c15_read_stream_boundary1_b4() {
    read_stream_lemma(4, "b", b"\r\n--b");
}
#[kani::proof]
#[kani::unwind(8)]
fn c15_read_stream_boundary1_b5() {
    read_stream_lemma(5, "b", b"\r\n--b");
}
#[kani::proof]
#[kani::unwind(9)]
fn c15_read_stream_boundary1_b6_t() {
    read_stream_lemma(6, "b", b"\r\n--b");
}
#[kani::proof]
#[kani::unwind(10)]
fn c15_read_stream_boundary1_b7_t() {
    read_stream_lemma(7, "b", b"\r\n--b");
}
#[kani::proof]
#[kani::unwind(11)]
fn c15_read_stream_boundary1_b8_t() {
    read_stream_lemma(8, "b", b"\r\n--b");
}
#[kani::proof]
#[kani::unwind(8)]
fn c15_read_stream_boundary2_b5() {
    read_stream_lemma(5, "bX", b"\r\n--bX");
}
#[kani::proof]
#[kani::unwind(9)]
fn c15_read_stream_boundary2_b6() {
    read_stream_lemma(6, "bX", b"\r\n--bX");
}
#[kani::proof]
#[kani::unwind(10)]
fn c15_read_stream_boundary2_b7_t() {
    read_stream_lemma(7, "bX", b"\r\n--bX");
}
#[kani::proof]
#[kani::unwind(11)]
fn c15_read_stream_boundary2_b8_t() {
    read_stream_lemma(8, "bX", b"\r\n--bX");
}
#[kani::proof]
#[kani::unwind(7)]
fn c15_read_len_empty() {
    read_len_lemma(0, Some(0));
    read_len_lemma(0, Some(3));
    read_len_lemma(1, Some(0));
}
#[kani::proof]
#[kani::unwind(7)]
fn c15_readline_before_eof() {
    readline_lemma(0, false, false);
    readline_lemma(0, false, true);
    readline_lemma(1, false, false);
    readline_lemma(1, false, true);
    readline_lemma(2, false, false);
    readline_lemma(2, false, true);
    readline_lemma(3, false, false);
    readline_lemma(3, false, true);
}
#[kani::proof]
#[kani::unwind(7)]
fn c15_readline_at_eof() {
    readline_lemma(0, true, false);
    readline_lemma(1, true, false);
    readline_lemma(2, true, false);
}

#[cfg(test)]
mod playback {
    #[allow(unused_imports)]
    use super::*;
    include!(concat!(env!("VERIF_PLAYBACK"), "/actix_multipart__field.rs"));
}
