// Reference replacement for the `memchr` crate inside actix-multipart UNDER KANI ONLY.
// The hooks in field.rs / payload.rs say `#[cfg(kani)] use crate::verif_memchr as memchr;`, which
// shadows the extern crate name in those modules, so `memchr::memmem::find(..)` in the code under test
// resolves to the function below.  Reason: the real `memmem::find` dispatches on haystack length
// (>= 64: SIMD prefilters, runtime CPU-feature detection) and CBMC encodes that branch whenever the
// length is symbolic (measured: >15 min / >8 GB for a 3-byte buffer); `#[kani::stub]` of this external,
// non-generic, `#[inline]` function is accepted by Kani 0.68 but has no effect (measured).
// Contract assumed (= memchr's documentation): index of the FIRST occurrence of `needle`, or None.
pub mod memmem {
    pub fn find(hay: &[u8], needle: &[u8]) -> Option<usize> {
        if needle.len() > hay.len() {
            return None;
        }
        let mut i = 0;
        while i + needle.len() <= hay.len() {
            let mut j = 0;
            let mut ok = true;
            while j < needle.len() {
                if hay[i + j] != needle[j] {
                    ok = false;
                    break;
                }
                j += 1;
            }
            if ok {
                return Some(i);
            }
            i += 1;
        }
        None
    }
}
