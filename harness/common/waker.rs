// Counting wakers for Kani harnesses (single-threaded; static counters).
// A waker is identified by a small id; `will_wake` compares (data, vtable) so two wakers with the
// same id are "the same task". Every wake (by value or by ref) bumps WAKES[id].
#[allow(dead_code)]
mod vwaker {
    use core::task::{RawWaker, RawWakerVTable, Waker};

    pub static mut WAKES: [u32; 4] = [0; 4];

    unsafe fn clone(p: *const ()) -> RawWaker {
        RawWaker::new(p, &VTABLE)
    }
    unsafe fn wake(p: *const ()) {
        let id = p as usize - 1;
        WAKES[id] += 1;
    }
    unsafe fn wake_by_ref(p: *const ()) {
        let id = p as usize - 1;
        WAKES[id] += 1;
    }
    unsafe fn drop(_p: *const ()) {}

    pub static VTABLE: RawWakerVTable = RawWakerVTable::new(clone, wake, wake_by_ref, drop);

    pub fn mk(id: usize) -> Waker {
        assert!(id < 4);
        unsafe { Waker::from_raw(RawWaker::new((id + 1) as *const (), &VTABLE)) }
    }
    pub fn wakes(id: usize) -> u32 {
        unsafe { WAKES[id] }
    }
    pub fn id_of(w: &Waker) -> usize {
        w.data() as usize - 1
    }
}
