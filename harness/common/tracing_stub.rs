// Environment stub: the first use of every `tracing` macro call-site runs
// `DefaultCallsite::register` (global call-site registry: Mutex, atomics, once_cell, dispatcher list).
// Under CBMC that alone costs >600 s per harness (measured on a harness containing nothing but one
// `tracing::error!`); stubbed: 7 s.  Contract assumed: no subscriber is interested in the call-site
// (`Interest::never()`), i.e. logging has no effect on results.
#[allow(dead_code)]
fn stub_tracing_register(_cs: &'static tracing::callsite::DefaultCallsite) -> tracing::subscriber::Interest {
    tracing::subscriber::Interest::never()
}
