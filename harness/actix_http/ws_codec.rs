// crate: actix-http
// module: ws::codec::verif_kani
//
// C14 O-5 — continuation / control-frame state machine of `ws::Codec` (decode and encode) against the
// RFC 6455 §5.4/§5.5 table, from every flag state, for every (fin, opcode).
use super::*;
include!(concat!(env!("VERIF_HARNESS"), "/common/tracing_stub.rs"));
use core::mem::forget;

#[derive(Clone, Copy, PartialEq, Eq)]
enum Want {
    Err,
    Text,
    Binary,
    Ping,
    Pong,
    Close,
    First,
    Continue,
    Last,
}

/// RFC 6455: control frames (8,9,10) must not be fragmented and may appear between fragments;
/// opcode 0 continues a started message; a data frame (1,2) starts a message and is illegal while a
/// fragmented message is in progress.  Returns (what must come out, in_fragment afterwards).
fn reference(in_frag: bool, fin: bool, op: u8) -> (Want, bool) {
    match op {
        8 | 9 | 10 => {
            if !fin {
                (Want::Err, in_frag)
            } else {
                (match op { 8 => Want::Close, 9 => Want::Ping, _ => Want::Pong }, in_frag)
            }
        }
        0 => {
            if !in_frag {
                (Want::Err, in_frag)
            } else if fin {
                (Want::Last, false)
            } else {
                (Want::Continue, true)
            }
        }
        1 | 2 => {
            if in_frag {
                (Want::Err, in_frag) // start of a new message inside a fragmented message
            } else if fin {
                (if op == 1 { Want::Text } else { Want::Binary }, false)
            } else {
                (Want::First, true)
            }
        }
        _ => (Want::Err, in_frag),
    }
}

/// The frame handed to the codec.  Under Kani `Parser::parse` is replaced by `stub_parse`, which returns
/// exactly this frame (the parser itself is decided by the c14_parse_* / c14_header_* harnesses; running
/// it again underneath the codec makes CBMC encode every opcode arm of the parser including
/// `String::from_utf8_lossy` for close payloads: >350 s of symbolic execution for ONE concrete frame).
/// The harness also writes the matching wire bytes into `src`, so a native replay (where the stub is
/// not applied and the real parser runs) sees the same frame.
static mut NEXT_FIN: bool = false;
static mut NEXT_OP: u8 = 0;
static mut NEXT_BYTE: u8 = 0;

fn valid_op(op: u8) -> bool {
    matches!(op, 0 | 1 | 2 | 8 | 9 | 10)
}

/// frame without payload (two stubs rather than a flag: whether a payload exists must be syntactically
/// concrete, otherwise CBMC encodes close-payload parsing, i.e. String::from_utf8_lossy)
fn stub_parse_empty(
    src: &mut BytesMut,
    _server: bool,
    _max_size: usize,
) -> Result<Option<(bool, OpCode, Option<BytesMut>)>, ProtocolError> {
    let (fin, op) = unsafe { (NEXT_FIN, NEXT_OP) };
    src.clear();
    // single return site: with an additional `Err` return the payload field of the merged return value
    // is no longer a constant `None` for CBMC.  A reserved opcode is handed over as `OpCode::Bad`, which
    // the codec rejects like the real parser rejects the raw opcode.
    Ok(Some((fin, OpCode::from(op), None)))
}

/// frame with a one-byte payload
fn stub_parse_payload(
    src: &mut BytesMut,
    _server: bool,
    _max_size: usize,
) -> Result<Option<(bool, OpCode, Option<BytesMut>)>, ProtocolError> {
    let (fin, op, byte) = unsafe { (NEXT_FIN, NEXT_OP, NEXT_BYTE) };
    src.clear();
    let mut p = BytesMut::with_capacity(1);
    p.extend_from_slice(&[byte]);
    Ok(Some((fin, OpCode::from(op), Some(p))))
}

/// fin, opcode (all 16), payload byte and mask symbolic; the codec's two fragment flags are enumerated
/// concretely by the callers (a symbolic flags byte makes `flags.contains(SERVER)` symbolic for CBMC,
/// which then encodes both roles' paths with symbolic buffer sizes: 57 GB measured).
fn decode_lemma(server: bool, with_payload: bool, in_frag: bool, w_frag: bool) {
    decode_lemma_op(server, with_payload, in_frag, w_frag, None)
}

/// `cop`: concrete opcode.  Frames WITH payload are run with a concrete opcode other than Close: with a
/// symbolic opcode CBMC encodes `parse_close_payload` (String::from_utf8_lossy) even though the harness
/// excludes close payloads, and does not finish in 25 min.
fn decode_lemma_op(server: bool, with_payload: bool, in_frag: bool, w_frag: bool, cop: Option<u8>) {
    let fin: bool = kani::any();
    let op: u8 = match cop {
        Some(o) => o,
        None => kani::any(),
    };
    kani::assume(op <= 15);
    // close payload parsing (from_utf8_lossy) is outside the claim
    assert!(!(with_payload && (cop.is_none() || op == 8)), "harness instance: payload frames use a concrete non-close opcode");
    let pay: u8 = kani::any();
    let mask: [u8; 4] = kani::any();
    let mut flags = Flags::empty();
    if server {
        flags.insert(Flags::SERVER);
    }
    if in_frag {
        flags.insert(Flags::CONTINUATION);
    }
    if w_frag {
        flags.insert(Flags::W_CONTINUATION);
    }
    let mut codec = Codec { flags, max_size: 65_536 };
    let l: u8 = if with_payload { 1 } else { 0 };
    let mut frame = [0u8; 7];
    frame[0] = (if fin { 0x80 } else { 0 }) | op;
    let mut n = 2;
    if server {
        frame[1] = 0x80 | l;
        frame[2] = mask[0];
        frame[3] = mask[1];
        frame[4] = mask[2];
        frame[5] = mask[3];
        n = 6;
    } else {
        frame[1] = l;
    }
    if with_payload {
        frame[n] = pay;
        n += 1;
    }
    let mut src = BytesMut::from(&frame[..n]);
    let plain = if server { pay ^ mask[0] } else { pay };
    unsafe {
        NEXT_FIN = fin;
        NEXT_OP = op;
        NEXT_BYTE = plain;
    }

    let r = codec.decode(&mut src);

    let (want, frag_after) = reference(in_frag, fin, op);
    // checked first and on its own so that this (known, F9) case has its own failing assertion
    if in_frag && fin && (op == 1 || op == 2) {
        assert!(r.is_err(), "a complete data frame inside a fragmented message must be rejected (RFC 6455 5.4)");
    }
    let payload_ok = |b: &Bytes| if with_payload { b.len() == 1 && b[0] == plain } else { b.is_empty() };
    match &r {
        Err(_) => assert!(want == Want::Err, "frame rejected only if it violates RFC 6455 framing rules"),
        Ok(None) => assert!(false, "a complete frame never yields 'need more'"),
        Ok(Some(f)) => {
            match f {
                Frame::Text(b) => assert!(want == Want::Text && payload_ok(b)),
                Frame::Binary(b) => assert!(want == Want::Binary && payload_ok(b)),
                Frame::Ping(b) => assert!(want == Want::Ping && payload_ok(b)),
                Frame::Pong(b) => assert!(want == Want::Pong && payload_ok(b)),
                Frame::Close(_) => assert!(want == Want::Close),
                Frame::Continuation(Item::FirstText(b)) => assert!(want == Want::First && op == 1 && payload_ok(b)),
                Frame::Continuation(Item::FirstBinary(b)) => assert!(want == Want::First && op == 2 && payload_ok(b)),
                Frame::Continuation(Item::Continue(b)) => assert!(want == Want::Continue && payload_ok(b)),
                Frame::Continuation(Item::Last(b)) => assert!(want == Want::Last && payload_ok(b)),
            }
            assert!(codec.flags.contains(Flags::CONTINUATION) == frag_after, "in-fragment flag follows the table");
        }
    }
    if want == Want::Err {
        assert!(r.is_err(), "protocol violation must be rejected");
        assert!(codec.flags.contains(Flags::CONTINUATION) == in_frag, "a rejected frame does not change the state");
    }
    assert!(codec.flags.contains(Flags::W_CONTINUATION) == w_frag, "decoding never touches the writer state");
    assert!(codec.flags.contains(Flags::SERVER) == server);
    kani::cover!(want == Want::Err && op == 0, "continuation without start");
    kani::cover!(want == Want::Err && (op == 1 || op == 2) && !fin, "non-final start inside a fragmented message");
    kani::cover!(want == Want::Err && op >= 8 && op <= 10, "fragmented control frame");
    kani::cover!(want == Want::Err && op > 10, "reserved opcode");
    kani::cover!(want == Want::Last, "last fragment");
    kani::cover!(want == Want::Ping && in_frag, "control frame between fragments");
    forget(r);
    forget(src);
}

fn stub_random<T>() -> T {
    // see ws_frame.rs: the real rand::random must not be reachable (Kani compiler crash)
    let mut v = core::mem::MaybeUninit::<T>::uninit();
    let p = v.as_mut_ptr() as *mut u8;
    let mut i = 0;
    while i < core::mem::size_of::<T>() {
        unsafe { *p.add(i) = kani::any() };
        i += 1;
    }
    unsafe { v.assume_init() }
}

#[derive(Clone, Copy, PartialEq, Eq, kani::Arbitrary)]
enum Msg {
    Text,
    Binary,
    Ping,
    Pong,
    Close,
    FirstText,
    FirstBinary,
    Continue,
    Last,
    Nop,
}

/// Encoder side (server role: unmasked): the writer's fragment state machine and the (fin, opcode)
/// it puts on the wire; then the client-side decoder accepts exactly that frame.
fn encode_lemma(m: Msg, w_frag: bool) {
    let mut flags = Flags::SERVER;
    if w_frag {
        flags.insert(Flags::W_CONTINUATION);
    }
    let mut codec = Codec { flags, max_size: 65_536 };
    let data = Bytes::from_static(b"z");
    let msg = match m {
        Msg::Text => Message::Text(ByteString::from_static("z")),
        Msg::Binary => Message::Binary(data),
        Msg::Ping => Message::Ping(data),
        Msg::Pong => Message::Pong(data),
        Msg::Close => Message::Close(None),
        Msg::FirstText => Message::Continuation(Item::FirstText(data)),
        Msg::FirstBinary => Message::Continuation(Item::FirstBinary(data)),
        Msg::Continue => Message::Continuation(Item::Continue(data)),
        Msg::Last => Message::Continuation(Item::Last(data)),
        Msg::Nop => Message::Nop,
    };
    let mut dst = BytesMut::with_capacity(32);
    let r = codec.encode(msg, &mut dst);
    let after = codec.flags.contains(Flags::W_CONTINUATION);
    let must_fail = match m {
        Msg::FirstText | Msg::FirstBinary => w_frag,
        Msg::Continue | Msg::Last => !w_frag,
        _ => false,
    };
    assert!(r.is_err() == must_fail, "writer rejects exactly: start while started, continue/last while not started");
    if r.is_err() {
        assert!(dst.is_empty() && after == w_frag, "a rejected message writes nothing and changes nothing");
    } else if m == Msg::Nop {
        assert!(dst.is_empty() && after == w_frag);
    } else {
        let (fin, op, frag_after) = match m {
            Msg::Text => (true, 1, w_frag),
            Msg::Binary => (true, 2, w_frag),
            Msg::Ping => (true, 9, w_frag),
            Msg::Pong => (true, 10, w_frag),
            Msg::Close => (true, 8, w_frag),
            Msg::FirstText => (false, 1, true),
            Msg::FirstBinary => (false, 2, true),
            Msg::Continue => (false, 0, true),
            Msg::Last => (true, 0, false),
            Msg::Nop => (true, 0, w_frag),
        };
        assert!(after == frag_after, "writer fragment state follows the table");
        let plen = if m == Msg::Close { 0 } else { 1 };
        assert!(dst.len() == 2 + plen, "unmasked short frame");
        assert!(dst[0] == (if fin { 0x80 } else { 0 }) | op, "fin/opcode byte");
        assert!(dst[1] == plen as u8, "unmasked, 7-bit length");
        if plen == 1 {
            assert!(dst[2] == b'z');
        }
    }
    kani::cover!(must_fail, "encode: rejected");
    kani::cover!(m == Msg::Last && !must_fail, "encode: last fragment");
    kani::cover!(true, "harness end reached");
    forget(r);
    forget(dst);
}

#[kani::proof]
#[kani::stub(tracing::callsite::DefaultCallsite::register, stub_tracing_register)]
#[kani::stub(Parser::parse, stub_parse_empty)]
#[kani::unwind(10)]
fn c14_codec_decode_client_role_empty_frames() {
    decode_lemma(false, false, false, false);
    decode_lemma(false, false, false, true);
    decode_lemma(false, false, true, false);
    decode_lemma(false, false, true, true);
}

#[kani::proof]
#[kani::stub(tracing::callsite::DefaultCallsite::register, stub_tracing_register)]
#[kani::stub(Parser::parse, stub_parse_payload)]
#[kani::unwind(10)]
fn c14_codec_decode_client_role_payload_frames() {
    decode_lemma_op(false, true, false, false, Some(0));
    decode_lemma_op(false, true, false, false, Some(1));
    decode_lemma_op(false, true, false, false, Some(2));
    decode_lemma_op(false, true, false, false, Some(9));
    decode_lemma_op(false, true, false, false, Some(10));
    decode_lemma_op(false, true, false, false, Some(3));
    decode_lemma_op(false, true, true, false, Some(0));
    decode_lemma_op(false, true, true, false, Some(1));
    decode_lemma_op(false, true, true, false, Some(2));
    decode_lemma_op(false, true, true, false, Some(9));
    decode_lemma_op(false, true, true, false, Some(10));
    decode_lemma_op(false, true, true, false, Some(3));
}

#[kani::proof]
#[kani::stub(tracing::callsite::DefaultCallsite::register, stub_tracing_register)]
#[kani::stub(Parser::parse, stub_parse_empty)]
#[kani::unwind(10)]
fn c14_codec_decode_server_role_empty_frames() {
    decode_lemma(true, false, false, false);
    decode_lemma(true, false, false, true);
    decode_lemma(true, false, true, false);
    decode_lemma(true, false, true, true);
}

#[kani::proof]
#[kani::stub(tracing::callsite::DefaultCallsite::register, stub_tracing_register)]
#[kani::stub(Parser::parse, stub_parse_payload)]
#[kani::unwind(10)]
fn c14_codec_decode_server_role_payload_frames() {
    decode_lemma_op(true, true, false, false, Some(0));
    decode_lemma_op(true, true, false, false, Some(1));
    decode_lemma_op(true, true, false, false, Some(2));
    decode_lemma_op(true, true, false, false, Some(9));
    decode_lemma_op(true, true, false, false, Some(10));
    decode_lemma_op(true, true, false, false, Some(3));
    decode_lemma_op(true, true, true, false, Some(0));
    decode_lemma_op(true, true, true, false, Some(1));
    decode_lemma_op(true, true, true, false, Some(2));
    decode_lemma_op(true, true, true, false, Some(9));
    decode_lemma_op(true, true, true, false, Some(10));
    decode_lemma_op(true, true, true, false, Some(3));
}

// the writer's state space (message kind x fragment flag) is enumerated completely
#[kani::proof]
#[kani::stub(tracing::callsite::DefaultCallsite::register, stub_tracing_register)]
#[kani::stub(rand::random, stub_random)]
#[kani::unwind(10)]
fn c14_codec_encode_messages() {
    encode_lemma(Msg::Text, false);
    encode_lemma(Msg::Text, true);
    encode_lemma(Msg::Binary, false);
    encode_lemma(Msg::Binary, true);
    encode_lemma(Msg::Ping, false);
    encode_lemma(Msg::Ping, true);
    encode_lemma(Msg::Pong, false);
    encode_lemma(Msg::Pong, true);
    encode_lemma(Msg::Close, false);
    encode_lemma(Msg::Close, true);
    encode_lemma(Msg::Nop, false);
    encode_lemma(Msg::Nop, true);
}

// the writer's state space (message kind x fragment flag) is enumerated completely
#[kani::proof]
#[kani::stub(tracing::callsite::DefaultCallsite::register, stub_tracing_register)]
#[kani::stub(rand::random, stub_random)]
#[kani::unwind(10)]
fn c14_codec_encode_fragments() {
    encode_lemma(Msg::FirstText, false);
    encode_lemma(Msg::FirstText, true);
    encode_lemma(Msg::FirstBinary, false);
    encode_lemma(Msg::FirstBinary, true);
    encode_lemma(Msg::Continue, false);
    encode_lemma(Msg::Continue, true);
    encode_lemma(Msg::Last, false);
    encode_lemma(Msg::Last, true);
}

#[cfg(test)]
mod playback {
    #[allow(unused_imports)]
    use super::*;
    include!(concat!(env!("VERIF_PLAYBACK"), "/actix_http__ws_codec.rs"));
}



