// crate: actix-http
// module: h1::codec::verif_kani
//
// No harness lives here.  `h1::Codec::encode` cannot be compiled by Kani 0.68: making it reachable
// (even for the `Message::Chunk` arms only) pulls in the `Message::Item` arm (response head encoding),
// and the Kani compiler crashes in its rustc-intrinsics pass (kani-compiler/src/intrinsics.rs:243,
// "assertion failed: output is i32").  The empty-chunk behaviour of the codec (finding F3, fixed) is
// therefore demonstrated by the ordinary public-API test replay/tests/findings.rs::f3_* only; the
// transfer-encoder underneath is covered by h1_encoder.rs.
