// crate: actix-http
// module: h1::decoder::verif_kani
//
// C01 / C17 / C19 — HTTP/1 body framing: chunked automaton step lemmas (L1-L3), decode-loop glue
// (L4), length/eof decoders, bounded whole runs.  See DESIGN.md §3 C01.
use super::*;
include!(concat!(env!("VERIF_HARNESS"), "/common/tracing_stub.rs"));
use core::mem::forget;

// ---------------------------------------------------------------------------------------------
// Reference automaton, written from RFC 7230 §4.1 (not from the implementation):
//   chunked-body = *chunk last-chunk CRLF          (no trailer support: trailers are rejected)
//   chunk        = chunk-size [ chunk-ext ] CRLF chunk-data CRLF
//   chunk-size   = 1*HEXDIG ; BWS before ';' or CRLF tolerated ; chunk-ext has no CTLs except HTAB
//   last-chunk   = 1*"0" [ chunk-ext ] CRLF
#[derive(Clone, Copy, PartialEq, Eq, Debug)]
enum St {
    Size,
    SizeLws,
    Extension,
    SizeLf,
    Body,
    BodyCr,
    BodyLf,
    EndCr,
    EndLf,
    End,
}

fn to_real(s: St) -> ChunkedState {
    match s {
        St::Size => ChunkedState::Size,
        St::SizeLws => ChunkedState::SizeLws,
        St::Extension => ChunkedState::Extension,
        St::SizeLf => ChunkedState::SizeLf,
        St::Body => ChunkedState::Body,
        St::BodyCr => ChunkedState::BodyCr,
        St::BodyLf => ChunkedState::BodyLf,
        St::EndCr => ChunkedState::EndCr,
        St::EndLf => ChunkedState::EndLf,
        St::End => ChunkedState::End,
    }
}

fn of_real(s: &ChunkedState) -> St {
    match s {
        ChunkedState::Size => St::Size,
        ChunkedState::SizeLws => St::SizeLws,
        ChunkedState::Extension => St::Extension,
        ChunkedState::SizeLf => St::SizeLf,
        ChunkedState::Body => St::Body,
        ChunkedState::BodyCr => St::BodyCr,
        ChunkedState::BodyLf => St::BodyLf,
        ChunkedState::EndCr => St::EndCr,
        ChunkedState::EndLf => St::EndLf,
        ChunkedState::End => St::End,
    }
}

#[derive(Clone, Copy, PartialEq, Eq)]
enum Spec {
    /// needs a byte that is not there: nothing may change
    Pending,
    /// framing violation
    Error,
    /// `consumed` bytes leave the front of the buffer; `chunk` = Some(k): the first k of them are body data
    Next { st: St, size: u64, consumed: usize, chunk: Option<usize> },
}

fn hexval(c: u8) -> Option<u8> {
    match c {
        b'0'..=b'9' => Some(c - b'0'),
        b'a'..=b'f' => Some(c - b'a' + 10),
        b'A'..=b'F' => Some(c - b'A' + 10),
        _ => None,
    }
}

fn spec_step(st: St, size: u64, b: &[u8]) -> Spec {
    if st == St::End {
        return Spec::Next { st: St::End, size, consumed: 0, chunk: None };
    }
    if st == St::Body {
        if b.is_empty() {
            return Spec::Next { st: St::Body, size, consumed: 0, chunk: None };
        }
        let k = if size > b.len() as u64 { b.len() } else { size as usize };
        let left = size - k as u64;
        return Spec::Next { st: if left > 0 { St::Body } else { St::BodyCr }, size: left, consumed: k, chunk: Some(k) };
    }
    if b.is_empty() {
        return Spec::Pending;
    }
    let c = b[0];
    let one = |st: St, size: u64| Spec::Next { st, size, consumed: 1, chunk: None };
    match st {
        St::Size => {
            if let Some(d) = hexval(c) {
                // mathematical value size*16+d must fit u64, otherwise the size line is invalid
                if size > (u64::MAX - d as u64) / 16 {
                    Spec::Error
                } else {
                    one(St::Size, size * 16 + d as u64)
                }
            } else if c == b' ' || c == b'\t' {
                one(St::SizeLws, size)
            } else if c == b';' {
                one(St::Extension, size)
            } else if c == b'\r' {
                one(St::SizeLf, size)
            } else {
                Spec::Error
            }
        }
        St::SizeLws => match c {
            b' ' | b'\t' => one(St::SizeLws, size),
            b';' => one(St::Extension, size),
            b'\r' => one(St::SizeLf, size),
            _ => Spec::Error,
        },
        St::Extension => {
            if c == b'\r' {
                one(St::SizeLf, size)
            } else if (c < 0x20 && c != b'\t') || c == 0x7f {
                Spec::Error // control characters (incl. bare LF) never appear in a chunk extension
            } else {
                one(St::Extension, size)
            }
        }
        St::SizeLf => {
            if c == b'\n' {
                one(if size > 0 { St::Body } else { St::EndCr }, size)
            } else {
                Spec::Error
            }
        }
        St::BodyCr => if c == b'\r' { one(St::BodyLf, size) } else { Spec::Error },
        St::BodyLf => if c == b'\n' { one(St::Size, size) } else { Spec::Error },
        St::EndCr => if c == b'\r' { one(St::EndLf, size) } else { Spec::Error },
        St::EndLf => if c == b'\n' { one(St::End, size) } else { Spec::Error },
        St::Body | St::End => unreachable!(),
    }
}

/// State invariant J of the chunked decoder (preserved by every step, holds initially):
///   Body => size > 0 ; BodyCr/BodyLf/EndCr/EndLf => size == 0.
fn inv(st: St, size: u64) -> bool {
    match st {
        St::Body => size > 0,
        St::BodyCr | St::BodyLf | St::EndCr | St::EndLf => size == 0,
        _ => true,
    }
}

const MAXN: usize = 8;

fn buf_of(bytes: &[u8; MAXN], n: usize) -> BytesMut {
    BytesMut::from(&bytes[..n])
}

fn same_bytes(a: &[u8], b: &[u8]) -> bool {
    if a.len() != b.len() {
        return false;
    }
    let mut i = 0;
    while i < a.len() {
        if a[i] != b[i] {
            return false;
        }
        i += 1;
    }
    true
}

// ---------------------------------------------------------------------------------------------
// O-1: one step of the REAL automaton from a concrete state, symbolic size counter, N symbolic bytes
// (N concrete) == reference; locality: exactly the consumed prefix leaves the buffer.
fn step_lemma(st: St, n: usize) {
    let bytes: [u8; MAXN] = kani::any();
    let size0: u64 = kani::any();
    kani::assume(inv(st, size0));
    let mut src = buf_of(&bytes, n);
    let mut size = size0;
    let mut out: Option<Bytes> = None;

    let r = to_real(st).step(&mut src, &mut size, &mut out);
    let spec = spec_step(st, size0, &bytes[..n]);

    match (&r, spec) {
        (Poll::Pending, Spec::Pending) => {
            assert!(n == 0, "Pending only on an empty buffer");
            assert!(size == size0 && out.is_none() && src.len() == n, "Pending changes nothing");
        }
        (Poll::Ready(Err(_)), Spec::Error) => {
            assert!(out.is_none(), "no body bytes are produced by a rejected step");
        }
        (Poll::Ready(Ok(next)), Spec::Next { st: s2, size: z2, consumed, chunk }) => {
            assert!(of_real(next) == s2, "successor state == RFC 7230 reference");
            assert!(size == z2, "size counter == reference");
            assert!(src.len() == n - consumed, "exactly the consumed prefix left the buffer");
            assert!(same_bytes(&src[..], &bytes[consumed..n]), "unconsumed suffix untouched");
            match (&out, chunk) {
                (None, None) => {}
                (Some(b), Some(k)) => {
                    assert!(k >= 1, "no empty data chunk is ever produced");
                    assert!(same_bytes(&b[..], &bytes[..k]), "body data == exactly the chunk-data bytes");
                }
                _ => assert!(false, "data produced iff the reference says so"),
            }
            assert!(inv(s2, size), "state invariant J preserved");
        }
        _ => assert!(false, "implementation and RFC reference disagree on accept/reject/pending"),
    }
    kani::cover!(matches!(r, Poll::Ready(Ok(_))) && n > 0, "step: accepted");
    kani::cover!(matches!(r, Poll::Ready(Err(_))), "step: rejected");
    kani::cover!(true, "harness end reached");
    forget(r);
    forget(src);
    forget(out);
}

// ---------------------------------------------------------------------------------------------
// O-3 glue: `PayloadDecoder::decode` (Chunked kind) == fold of the reference step over the buffer that
// stops at: first data chunk, End, error, or exhausted buffer.
#[derive(PartialEq, Eq, Clone, Copy)]
enum Out {
    NeedMore,
    Err,
    Eof,
    Chunk(usize, usize), // [from, to) of the input
}

fn spec_decode(mut st: St, mut size: u64, b: &[u8]) -> (Out, St, u64, usize) {
    let mut pos = 0usize;
    let mut i = 0;
    // every iteration consumes at least one byte or returns: at most len+1 iterations
    while i <= MAXN {
        match spec_step(st, size, &b[pos..]) {
            Spec::Pending => return (Out::NeedMore, st, size, pos),
            Spec::Error => return (Out::Err, st, size, pos),
            Spec::Next { st: s2, size: z2, consumed, chunk } => {
                let from = pos;
                pos += consumed;
                st = s2;
                size = z2;
                if st == St::End {
                    return (Out::Eof, st, size, pos);
                }
                if let Some(k) = chunk {
                    return (Out::Chunk(from, from + k), st, size, pos);
                }
                if pos == b.len() {
                    return (Out::NeedMore, st, size, pos);
                }
            }
        }
        i += 1;
    }
    (Out::NeedMore, st, size, pos)
}

fn decode_lemma(st: St, n: usize) {
    decode_lemma_with(st, n, None, None)
}

/// `first`: the first byte is this CONCRETE value (so that the state after the first loop iteration is
/// concrete — a symbolic intermediate ChunkedState makes the second iteration intractable: >900 s);
/// `csize`: concrete size counter.  Everything else symbolic.
fn decode_lemma_with(st: St, n: usize, first: Option<u8>, csize: Option<u64>) {
    let mut bytes: [u8; MAXN] = kani::any();
    if let Some(f) = first {
        bytes[0] = f;
    }
    let size0: u64 = match csize {
        Some(z) => z,
        None => kani::any(),
    };
    kani::assume(inv(st, size0));
    let mut src = buf_of(&bytes, n);
    let mut dec = PayloadDecoder { kind: Kind::Chunked(to_real(st), size0) };

    let r = dec.decode(&mut src);
    let (out, s2, z2, pos) = spec_decode(st, size0, &bytes[..n]);

    match &r {
        Ok(None) => assert!(out == Out::NeedMore, "decode: wants more input iff the reference does"),
        Ok(Some(PayloadItem::Eof)) => assert!(out == Out::Eof, "decode: end of body iff the reference reached End"),
        Ok(Some(PayloadItem::Chunk(c))) => match out {
            Out::Chunk(a, b) => assert!(same_bytes(&c[..], &bytes[a..b]), "decode: chunk data exact"),
            _ => assert!(false, "decode: data only where the reference has chunk-data"),
        },
        Err(_) => assert!(out == Out::Err, "decode: error iff the reference rejects"),
    }
    if r.is_ok() {
        match &dec.kind {
            Kind::Chunked(s, z) => {
                assert!(of_real(s) == s2 && *z == z2, "decode: decoder state == reference fold");
            }
            _ => assert!(false),
        }
        assert!(src.len() == n - pos && same_bytes(&src[..], &bytes[pos..n]), "decode: leftover == unconsumed suffix");
    }
    // after End nothing more is consumed: the bytes of the next message stay in the buffer
    if st == St::End {
        assert!(src.len() == n, "End is absorbing: decode consumes nothing");
    }
    kani::cover!(matches!(r, Ok(Some(PayloadItem::Eof))), "decode: eof");
    kani::cover!(matches!(r, Ok(Some(PayloadItem::Chunk(_)))), "decode: chunk");
    kani::cover!(r.is_err(), "decode: error");
    kani::cover!(matches!(r, Ok(None)), "decode: need more");
    kani::cover!(true, "harness end reached");
    forget(r);
    forget(src);
    forget(dec);
}

// ---------------------------------------------------------------------------------------------
// O-2 Content-Length and read-until-close decoders.
fn length_lemma(n: usize) {
    let bytes: [u8; MAXN] = kani::any();
    let rem0: u64 = kani::any();
    let mut src = buf_of(&bytes, n);
    let mut dec = PayloadDecoder::length(rem0);
    let r = dec.decode(&mut src);
    let rem = match &dec.kind {
        Kind::Length(r) => *r,
        _ => {
            assert!(false);
            0
        }
    };
    match &r {
        Ok(Some(PayloadItem::Eof)) => {
            assert!(rem0 == 0, "Content-Length body ends exactly when the declared length is reached");
            assert!(src.len() == n, "bytes after the body are not touched");
        }
        Ok(Some(PayloadItem::Chunk(c))) => {
            let k = if rem0 > n as u64 { n } else { rem0 as usize };
            assert!(rem0 > 0 && n > 0);
            assert!(same_bytes(&c[..], &bytes[..k]), "exactly min(remaining, available) body bytes");
            assert!(rem == rem0 - k as u64);
            assert!(src.len() == n - k && same_bytes(&src[..], &bytes[k..n]), "next message bytes untouched");
        }
        Ok(None) => assert!(rem0 > 0 && n == 0 && rem == rem0),
        Err(_) => assert!(false, "length decoder never errors"),
    }
    kani::cover!(matches!(r, Ok(Some(PayloadItem::Chunk(_)))) && rem == 0 && src.len() > 0, "length: body ends mid-buffer");
    kani::cover!(matches!(r, Ok(Some(PayloadItem::Eof))), "length: eof");
    kani::cover!(true, "harness end reached");
    forget(r);
    forget(src);
}

fn eof_lemma(n: usize) {
    let bytes: [u8; MAXN] = kani::any();
    let mut src = buf_of(&bytes, n);
    let mut dec = PayloadDecoder::eof();
    let r = dec.decode(&mut src);
    match &r {
        Ok(None) => assert!(n == 0),
        Ok(Some(PayloadItem::Chunk(c))) => {
            assert!(n > 0 && same_bytes(&c[..], &bytes[..n]) && src.is_empty());
        }
        _ => assert!(false, "read-until-close decoder never ends or errors by itself"),
    }
    assert!(matches!(dec.kind, Kind::Eof));
    kani::cover!(true, "harness end reached");
    forget(r);
    forget(src);
}

// ---------------------------------------------------------------------------------------------
// O-5 bounded whole run — NOT REGISTERED: none of the instances (2-3 symbolic bytes, one cut) finished in
// 50 minutes even with the tracing stub (the decoder state after the first loop iteration is symbolic).
// The function is kept for reference.
// O-5 bounded whole run (cross-check of the composition argument): from the initial chunked decoder,
// N symbolic bytes delivered whole vs. cut at a symbolic position: same events, same final state,
// same leftover.  Events are folded into (total data length, checksum of data positions, eof, err).
#[derive(PartialEq, Eq, Clone, Copy)]
struct Trace {
    data_len: usize,
    data_sum: u32,
    eof: bool,
    err: bool,
}

fn drain(dec: &mut PayloadDecoder, src: &mut BytesMut, t: &mut Trace, max_calls: usize) {
    let mut i = 0;
    while i < max_calls {
        if t.eof || t.err {
            return;
        }
        match dec.decode(src) {
            Ok(None) => return,
            Ok(Some(PayloadItem::Eof)) => t.eof = true,
            Ok(Some(PayloadItem::Chunk(c))) => {
                let mut j = 0;
                while j < c.len() {
                    t.data_sum = t.data_sum.wrapping_mul(31).wrapping_add(c[j] as u32 + 1);
                    t.data_len += 1;
                    j += 1;
                }
                forget(c);
            }
            Err(e) => {
                t.err = true;
                forget(e);
            }
        }
        i += 1;
    }
}

fn whole_run(n: usize, cut: usize) {
    let bytes: [u8; MAXN] = kani::any();
    // A: delivered whole
    let mut a_dec = PayloadDecoder::chunked();
    let mut a_src = buf_of(&bytes, n);
    let mut a = Trace { data_len: 0, data_sum: 0, eof: false, err: false };
    drain(&mut a_dec, &mut a_src, &mut a, n + 1);
    // B: delivered as bytes[..cut] then bytes[cut..n]
    let mut b_dec = PayloadDecoder::chunked();
    let mut b_src = buf_of(&bytes, cut);
    let mut b = Trace { data_len: 0, data_sum: 0, eof: false, err: false };
    drain(&mut b_dec, &mut b_src, &mut b, cut + 1);
    if !(b.eof || b.err) {
        b_src.extend_from_slice(&bytes[cut..n]);
        drain(&mut b_dec, &mut b_src, &mut b, n - cut + 1);
    } else {
        b_src.extend_from_slice(&bytes[cut..n]);
    }
    assert!(a == b, "same body bytes / end / error however the stream is cut");
    if !a.err {
        assert!(a_dec == b_dec, "same decoder state however the stream is cut");
        assert!(a_src.len() == b_src.len() && same_bytes(&a_src[..], &b_src[..]), "same leftover however the stream is cut");
    }
    kani::cover!(a.eof, "whole run: complete body");
    kani::cover!(a.err, "whole run: rejected");
    kani::cover!(a.data_len > 0, "whole run: data delivered");
    forget(a_src);
    forget(b_src);
}

// ---------------------------------------------------------------------------------------------
// Locality of rejection (L1 for the decode loop): a byte the grammar rejects in the current state is
// rejected whatever FOLLOWS it in the same buffer (so no look-ahead "fast path" can accept what the
// byte-wise automaton rejects, and the verdict cannot depend on where the read boundary falls).
// First byte concrete (one representative per rejected class), `tail` further symbolic bytes.
fn reject_with_tail(st: St, first: u8, csize: Option<u64>, tail: usize) {
    let mut bytes: [u8; 8] = kani::any();
    bytes[0] = first;
    let n = 1 + tail;
    let size0: u64 = match csize {
        Some(z) => z,
        None => kani::any(),
    };
    kani::assume(inv(st, size0));
    assert!(spec_step(st, size0, &bytes[..1]) == Spec::Error, "harness instance must start with a rejected byte");
    let mut src = BytesMut::from(&bytes[..n]);
    let mut dec = PayloadDecoder { kind: Kind::Chunked(to_real(st), size0) };
    let r = dec.decode(&mut src);
    assert!(r.is_err(), "bad chunk syntax is rejected whatever follows it in the buffer");
    kani::cover!(true, "harness end reached");
    forget(r);
    forget(src);
    forget(dec);
}

// ---- harness instances (generated).  One harness = one lemma at one CONCRETE buffer length, run for
// a group of concrete decoder states in turn (state concrete per call; bytes and size counter symbolic).
#[kani::proof]
#[kani::stub(tracing::callsite::DefaultCallsite::register, stub_tracing_register)]
#[kani::unwind(6)]
fn c01_step_size_line_b0() {
    step_lemma(St::Size, 0);
    step_lemma(St::SizeLws, 0);
    step_lemma(St::Extension, 0);
    step_lemma(St::SizeLf, 0);
}
#[kani::proof]
#[kani::stub(tracing::callsite::DefaultCallsite::register, stub_tracing_register)]
#[kani::unwind(6)]
fn c01_step_body_b0() {
    step_lemma(St::Body, 0);
    step_lemma(St::BodyCr, 0);
    step_lemma(St::BodyLf, 0);
}
#[kani::proof]
#[kani::stub(tracing::callsite::DefaultCallsite::register, stub_tracing_register)]
#[kani::unwind(6)]
fn c01_step_end_b0() {
    step_lemma(St::EndCr, 0);
    step_lemma(St::EndLf, 0);
    step_lemma(St::End, 0);
}
#[kani::proof]
#[kani::stub(tracing::callsite::DefaultCallsite::register, stub_tracing_register)]
#[kani::unwind(6)]
fn c01_step_size_line_b1() {
    step_lemma(St::Size, 1);
    step_lemma(St::SizeLws, 1);
    step_lemma(St::Extension, 1);
    step_lemma(St::SizeLf, 1);
}
#[kani::proof]
#[kani::stub(tracing::callsite::DefaultCallsite::register, stub_tracing_register)]
#[kani::unwind(6)]
fn c01_step_body_b1() {
    step_lemma(St::Body, 1);
    step_lemma(St::BodyCr, 1);
    step_lemma(St::BodyLf, 1);
}
#[kani::proof]
#[kani::stub(tracing::callsite::DefaultCallsite::register, stub_tracing_register)]
#[kani::unwind(6)]
fn c01_step_end_b1() {
    step_lemma(St::EndCr, 1);
    step_lemma(St::EndLf, 1);
    step_lemma(St::End, 1);
}
#[kani::proof]
#[kani::stub(tracing::callsite::DefaultCallsite::register, stub_tracing_register)]
#[kani::unwind(6)]
fn c01_step_size_line_b2() {
    step_lemma(St::Size, 2);
    step_lemma(St::SizeLws, 2);
    step_lemma(St::Extension, 2);
    step_lemma(St::SizeLf, 2);
}
#[kani::proof]
#[kani::stub(tracing::callsite::DefaultCallsite::register, stub_tracing_register)]
#[kani::unwind(6)]
fn c01_step_body_b2() {
    step_lemma(St::Body, 2);
    step_lemma(St::BodyCr, 2);
    step_lemma(St::BodyLf, 2);
}
#[kani::proof]
#[kani::stub(tracing::callsite::DefaultCallsite::register, stub_tracing_register)]
#[kani::unwind(6)]
fn c01_step_end_b2() {
    step_lemma(St::EndCr, 2);
    step_lemma(St::EndLf, 2);
    step_lemma(St::End, 2);
}
#[kani::proof]
#[kani::stub(tracing::callsite::DefaultCallsite::register, stub_tracing_register)]
#[kani::unwind(6)]
fn c01_step_size_line_b3() {
    step_lemma(St::Size, 3);
    step_lemma(St::SizeLws, 3);
    step_lemma(St::Extension, 3);
    step_lemma(St::SizeLf, 3);
}
#[kani::proof]
#[kani::stub(tracing::callsite::DefaultCallsite::register, stub_tracing_register)]
#[kani::unwind(6)]
fn c01_step_body_b3() {
    step_lemma(St::Body, 3);
    step_lemma(St::BodyCr, 3);
    step_lemma(St::BodyLf, 3);
}
#[kani::proof]
#[kani::stub(tracing::callsite::DefaultCallsite::register, stub_tracing_register)]
#[kani::unwind(6)]
fn c01_step_end_b3() {
    step_lemma(St::EndCr, 3);
    step_lemma(St::EndLf, 3);
    step_lemma(St::End, 3);
}
#[kani::proof]
#[kani::stub(tracing::callsite::DefaultCallsite::register, stub_tracing_register)]
#[kani::unwind(6)]
fn c01_step_size_line_b4() {
    step_lemma(St::Size, 4);
    step_lemma(St::SizeLws, 4);
    step_lemma(St::Extension, 4);
    step_lemma(St::SizeLf, 4);
}
#[kani::proof]
#[kani::stub(tracing::callsite::DefaultCallsite::register, stub_tracing_register)]
#[kani::unwind(6)]
fn c01_step_body_b4() {
    step_lemma(St::Body, 4);
    step_lemma(St::BodyCr, 4);
    step_lemma(St::BodyLf, 4);
}
#[kani::proof]
#[kani::stub(tracing::callsite::DefaultCallsite::register, stub_tracing_register)]
#[kani::unwind(6)]
fn c01_step_end_b4() {
    step_lemma(St::EndCr, 4);
    step_lemma(St::EndLf, 4);
    step_lemma(St::End, 4);
}
#[kani::proof]
#[kani::stub(tracing::callsite::DefaultCallsite::register, stub_tracing_register)]
#[kani::unwind(7)]
fn c01_decode_size_line_b0() {
    decode_lemma(St::Size, 0);
    decode_lemma(St::SizeLws, 0);
    decode_lemma(St::Extension, 0);
    decode_lemma(St::SizeLf, 0);
}
#[kani::proof]
#[kani::stub(tracing::callsite::DefaultCallsite::register, stub_tracing_register)]
#[kani::unwind(7)]
fn c01_decode_body_b0() {
    decode_lemma(St::Body, 0);
    decode_lemma(St::BodyCr, 0);
    decode_lemma(St::BodyLf, 0);
}
#[kani::proof]
#[kani::stub(tracing::callsite::DefaultCallsite::register, stub_tracing_register)]
#[kani::unwind(7)]
fn c01_decode_end_b0() {
    decode_lemma(St::EndCr, 0);
    decode_lemma(St::EndLf, 0);
    decode_lemma(St::End, 0);
}
#[kani::proof]
#[kani::stub(tracing::callsite::DefaultCallsite::register, stub_tracing_register)]
#[kani::unwind(7)]
fn c01_decode_size_line_b1() {
    decode_lemma(St::Size, 1);
    decode_lemma(St::SizeLws, 1);
    decode_lemma(St::Extension, 1);
    decode_lemma(St::SizeLf, 1);
}
#[kani::proof]
#[kani::stub(tracing::callsite::DefaultCallsite::register, stub_tracing_register)]
#[kani::unwind(7)]
fn c01_decode_body_b1() {
    decode_lemma(St::BodyCr, 1);
    decode_lemma(St::BodyLf, 1);
}
#[kani::proof]
#[kani::stub(tracing::callsite::DefaultCallsite::register, stub_tracing_register)]
#[kani::unwind(7)]
fn c01_decode_end_b1() {
    decode_lemma(St::EndCr, 1);
    decode_lemma(St::EndLf, 1);
    decode_lemma(St::End, 1);
}
#[kani::proof]
#[kani::stub(tracing::callsite::DefaultCallsite::register, stub_tracing_register)]
#[kani::unwind(7)]
fn c01_decode_body_concrete_sizes() {
    decode_lemma_with(St::Body, 1, None, Some(1));
    decode_lemma_with(St::Body, 1, None, Some(2));
    decode_lemma_with(St::Body, 2, None, Some(1));
    decode_lemma_with(St::Body, 2, None, Some(2));
    decode_lemma_with(St::Body, 2, None, Some(3));
}
// two loop iterations of decode: concrete first byte (one per edge of the grammar), symbolic second byte
#[kani::proof]
#[kani::stub(tracing::callsite::DefaultCallsite::register, stub_tracing_register)]
#[kani::unwind(7)]
fn c01_decode2_edges_part1() {
    decode_lemma_with(St::Size, 2, Some(b'1'), Some(0x0));
    decode_lemma_with(St::Size, 2, Some(b'1'), Some(0xfffffffffffffff));
    decode_lemma_with(St::Size, 2, Some(b' '), None);
    decode_lemma_with(St::Size, 2, Some(b';'), None);
}
// two loop iterations of decode: concrete first byte (one per edge of the grammar), symbolic second byte
#[kani::proof]
#[kani::stub(tracing::callsite::DefaultCallsite::register, stub_tracing_register)]
#[kani::unwind(7)]
fn c01_decode2_edges_part2() {
    decode_lemma_with(St::Size, 2, Some(b'\r'), None);
    decode_lemma_with(St::Size, 2, Some(b'g'), None);
    decode_lemma_with(St::SizeLws, 2, Some(b'\t'), None);
    decode_lemma_with(St::SizeLws, 2, Some(b';'), None);
}
// two loop iterations of decode: concrete first byte (one per edge of the grammar), symbolic second byte
#[kani::proof]
#[kani::stub(tracing::callsite::DefaultCallsite::register, stub_tracing_register)]
#[kani::unwind(7)]
fn c01_decode2_edges_part3() {
    decode_lemma_with(St::SizeLws, 2, Some(b'\r'), None);
    decode_lemma_with(St::Extension, 2, Some(b'x'), None);
    decode_lemma_with(St::Extension, 2, Some(b'\r'), None);
    decode_lemma_with(St::SizeLf, 2, Some(b'\n'), Some(0x0));
}
// two loop iterations of decode: concrete first byte (one per edge of the grammar), symbolic second byte
#[kani::proof]
#[kani::stub(tracing::callsite::DefaultCallsite::register, stub_tracing_register)]
#[kani::unwind(7)]
fn c01_decode2_edges_part4() {
    decode_lemma_with(St::SizeLf, 2, Some(b'\n'), Some(0x5));
    decode_lemma_with(St::BodyCr, 2, Some(b'\r'), None);
    decode_lemma_with(St::BodyLf, 2, Some(b'\n'), None);
    decode_lemma_with(St::EndCr, 2, Some(b'\r'), None);
    decode_lemma_with(St::EndLf, 2, Some(b'\n'), None);
}
#[kani::proof]
#[kani::stub(tracing::callsite::DefaultCallsite::register, stub_tracing_register)]
#[kani::unwind(6)]
fn c01_length_and_eof_b0() {
    length_lemma(0);
    eof_lemma(0);
}
#[kani::proof]
#[kani::stub(tracing::callsite::DefaultCallsite::register, stub_tracing_register)]
#[kani::unwind(6)]
fn c01_length_and_eof_b1() {
    length_lemma(1);
    eof_lemma(1);
}
#[kani::proof]
#[kani::stub(tracing::callsite::DefaultCallsite::register, stub_tracing_register)]
#[kani::unwind(6)]
fn c01_length_and_eof_b2() {
    length_lemma(2);
    eof_lemma(2);
}
#[kani::proof]
#[kani::stub(tracing::callsite::DefaultCallsite::register, stub_tracing_register)]
#[kani::unwind(6)]
fn c01_length_and_eof_b3() {
    length_lemma(3);
    eof_lemma(3);
}
#[kani::proof]
#[kani::stub(tracing::callsite::DefaultCallsite::register, stub_tracing_register)]
#[kani::unwind(6)]
fn c01_length_and_eof_b4() {
    length_lemma(4);
    eof_lemma(4);
}

#[kani::proof]
#[kani::stub(tracing::callsite::DefaultCallsite::register, stub_tracing_register)]
#[kani::unwind(10)]
fn c01_reject_with_tail_size_line() {
    reject_with_tail(St::Size, b'+', Some(0), 4);
    reject_with_tail(St::Size, b'g', Some(0), 4);
    reject_with_tail(St::Size, b'-', Some(3), 5);
    reject_with_tail(St::Size, b'\n', Some(0), 3);
    reject_with_tail(St::SizeLws, b'1', None, 4);
    reject_with_tail(St::Extension, b'\n', None, 4);
    reject_with_tail(St::SizeLf, b'\r', None, 4);
}
#[kani::proof]
#[kani::stub(tracing::callsite::DefaultCallsite::register, stub_tracing_register)]
#[kani::unwind(10)]
fn c01_reject_with_tail_body_end() {
    reject_with_tail(St::BodyCr, b'\n', None, 4);
    reject_with_tail(St::BodyCr, b'x', None, 2);
    reject_with_tail(St::BodyLf, b'\r', None, 4);
    reject_with_tail(St::BodyLf, b'G', None, 3);
    reject_with_tail(St::EndCr, b'\n', None, 4);
    reject_with_tail(St::EndCr, b'T', None, 6);
    reject_with_tail(St::EndLf, b'\r', None, 4);
}

#[kani::proof]
#[kani::stub(tracing::callsite::DefaultCallsite::register, stub_tracing_register)]
#[kani::unwind(11)]
fn c01_step_size_line_b6_t() {
    step_lemma(St::Size, 6);
    step_lemma(St::SizeLws, 6);
    step_lemma(St::Extension, 6);
    step_lemma(St::SizeLf, 6);
}
#[kani::proof]
#[kani::stub(tracing::callsite::DefaultCallsite::register, stub_tracing_register)]
#[kani::unwind(11)]
fn c01_step_body_b6_t() {
    step_lemma(St::Body, 6);
    step_lemma(St::BodyCr, 6);
    step_lemma(St::BodyLf, 6);
}
#[kani::proof]
#[kani::stub(tracing::callsite::DefaultCallsite::register, stub_tracing_register)]
#[kani::unwind(11)]
fn c01_step_end_b6_t() {
    step_lemma(St::EndCr, 6);
    step_lemma(St::EndLf, 6);
    step_lemma(St::End, 6);
}
#[kani::proof]
#[kani::stub(tracing::callsite::DefaultCallsite::register, stub_tracing_register)]
#[kani::unwind(11)]
fn c01_length_and_eof_b6_t() {
    length_lemma(6);
    eof_lemma(6);
}
#[kani::proof]
#[kani::stub(tracing::callsite::DefaultCallsite::register, stub_tracing_register)]
#[kani::unwind(11)]
fn c01_step_size_line_b8_t() {
    step_lemma(St::Size, 8);
    step_lemma(St::SizeLws, 8);
    step_lemma(St::Extension, 8);
    step_lemma(St::SizeLf, 8);
}
#[kani::proof]
#[kani::stub(tracing::callsite::DefaultCallsite::register, stub_tracing_register)]
#[kani::unwind(11)]
fn c01_step_body_b8_t() {
    step_lemma(St::Body, 8);
    step_lemma(St::BodyCr, 8);
    step_lemma(St::BodyLf, 8);
}
#[kani::proof]
#[kani::stub(tracing::callsite::DefaultCallsite::register, stub_tracing_register)]
#[kani::unwind(11)]
fn c01_step_end_b8_t() {
    step_lemma(St::EndCr, 8);
    step_lemma(St::EndLf, 8);
    step_lemma(St::End, 8);
}
#[kani::proof]
#[kani::stub(tracing::callsite::DefaultCallsite::register, stub_tracing_register)]
#[kani::unwind(11)]
fn c01_length_and_eof_b8_t() {
    length_lemma(8);
    eof_lemma(8);
}
#[kani::proof]
#[kani::stub(tracing::callsite::DefaultCallsite::register, stub_tracing_register)]
#[kani::unwind(11)]
fn c01_reject_with_tail_long_t() {
    reject_with_tail(St::Size, b'+', Some(0), 7);
    reject_with_tail(St::SizeLws, b'0', None, 7);
    reject_with_tail(St::BodyCr, b'\n', None, 7);
    reject_with_tail(St::EndLf, b'G', None, 7);
}

#[cfg(test)]
mod playback {
    #[allow(unused_imports)]
    use super::*;
    include!(concat!(env!("VERIF_PLAYBACK"), "/actix_http__h1_decoder.rs"));
}

