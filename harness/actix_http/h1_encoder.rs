// crate: actix-http
// module: h1::encoder::verif_kani
//
// C02 O-1/O-2/O-3 — response transfer encoder (`TransferEncoding::{encode, encode_eof}`): the bytes put
// on the wire for a sized / until-close / chunked body, for every declared size and chunk sequence.
use super::*;
include!(concat!(env!("VERIF_HARNESS"), "/common/tracing_stub.rs"));
use core::mem::forget;

static POOL: [u8; 12] = [b'a', b'b', b'c', b'd', b'e', b'f', b'g', b'h', b'i', b'j', b'k', b'l'];

fn same(a: &[u8], b: &[u8]) -> bool {
    if a.len() != b.len() {
        return false;
    }
    let mut i = 0;
    while i < a.len() {
        if a[i] != b[i] {
            return false;
        }
        i += 1;
    }
    true
}

/// Sized body: chunk lengths concrete (symbolic lengths in extend_from_slice do not get through CBMC),
/// declared size symbolic: the wire carries exactly the first min(declared, produced) body bytes;
/// the encoder reports completion exactly when the declared size is reached; a short body is an error
/// at encode_eof (so the dispatcher closes instead of emitting a complete-looking message).
fn sized_lemma(lens: [usize; 3]) {
    let declared: u64 = kani::any();
    let mut te = TransferEncoding::length(declared);
    let mut dst = BytesMut::with_capacity(32);
    let mut off = 0usize;
    let mut i = 0;
    while i < 3 {
        let before = dst.len();
        let r = te.encode(&POOL[off..off + lens[i]], &mut dst);
        off += lens[i];
        let want = if declared < off as u64 { declared as usize } else { off };
        assert!(dst.len() == want, "wire == produced bytes cut to the declared size");
        assert!(dst.len() >= before, "nothing is ever taken back");
        match r {
            Ok(done) => assert!(done == (declared <= off as u64), "reports completion exactly when the declared size is reached"),
            Err(_) => assert!(false, "sized encoder never fails while encoding"),
        }
        i += 1;
    }
    let total = off;
    let n = dst.len();
    let r = te.encode_eof(&mut dst);
    assert!(dst.len() == n, "end of body writes nothing for a sized body");
    assert!(r.is_err() == ((total as u64) < declared), "short body => error, never a complete-looking message");
    assert!(same(&dst[..], &POOL[..n]), "body bytes exact and in order");
    kani::cover!(r.is_err(), "sized: short body");
    kani::cover!(declared < total as u64 && declared > 0, "sized: long body cut");
    kani::cover!(declared == total as u64, "sized: exact");
    forget(r);
    forget(dst);
}

/// Until-close body: wire == concatenation; end of body writes nothing.
fn eof_kind_lemma(lens: [usize; 3]) {
    let mut te = TransferEncoding::eof();
    let mut dst = BytesMut::with_capacity(32);
    let mut off = 0usize;
    let mut i = 0;
    while i < 3 {
        let r = te.encode(&POOL[off..off + lens[i]], &mut dst);
        off += lens[i];
        assert!(r.is_ok() && dst.len() == off);
        i += 1;
    }
    let r = te.encode_eof(&mut dst);
    assert!(r.is_ok() && dst.len() == off && same(&dst[..], &POOL[..off]), "until-close: wire == body");
    kani::cover!(true, "harness end reached");
    forget(dst);
}

/// Chunked body, terminator discipline (paths that do not format a size line): from either state of the
/// "terminated" flag: the terminator is written exactly once; after it nothing is ever written.
/// `ended`/`first_is_eof` concrete per call: with symbolic flags CBMC cannot rule out the size-line formatting path
/// (core::fmt) for the late chunk below and encodes it (>45 min, 13 GB).
fn chunked_terminator_lemma(ended: bool, first_is_eof: bool) {
    let mut te = TransferEncoding { kind: TransferEncodingKind::Chunked(ended) };
    let mut dst = BytesMut::with_capacity(32);
    if first_is_eof {
        let r = te.encode_eof(&mut dst);
        assert!(r.is_ok());
    }
    let n1 = dst.len();
    if first_is_eof && !ended {
        assert!(same(&dst[..], b"0\r\n\r\n"), "end of body == last-chunk CRLF");
    } else {
        assert!(n1 == 0);
    }
    if first_is_eof || ended {
        // the message is complete: a late chunk or a second end must not add bytes
        let r = te.encode(&POOL[..3], &mut dst);
        assert!(matches!(r, Ok(true)) && dst.len() == n1, "nothing after the terminator");
        let r = te.encode_eof(&mut dst);
        assert!(r.is_ok() && dst.len() == n1, "terminator exactly once");
    }
    kani::cover!(first_is_eof && !ended, "terminator written");
    kani::cover!(ended, "already terminated");
    forget(dst);
}

// NOT harnessed (measured twice): a NON-empty chunk in chunked mode.  Its size line is produced by
// `writeln!(MutWriter(buf), "{:X}\r", len)`, i.e. core::fmt; a harness encoding one concrete 3-byte chunk
// did not finish in 25 minutes (with the tracing stub, unlimited stack).  The hex rendering of the chunk
// size is therefore outside the claim (seed C02b lives exactly there and is missed).

#[kani::proof]
#[kani::stub(tracing::callsite::DefaultCallsite::register, stub_tracing_register)]
#[kani::unwind(14)]
fn c02_sized_body_splits() {
    sized_lemma([2, 0, 3]);
    sized_lemma([5, 0, 0]);
    sized_lemma([0, 0, 0]);
}

#[kani::proof]
#[kani::stub(tracing::callsite::DefaultCallsite::register, stub_tracing_register)]
#[kani::unwind(14)]
fn c02_sized_body_splits_more_t() {
    sized_lemma([1, 1, 1]);
    sized_lemma([4, 3, 2]);
}

#[kani::proof]
#[kani::stub(tracing::callsite::DefaultCallsite::register, stub_tracing_register)]
#[kani::unwind(14)]
fn c02_sized_body_splits_wide_t() {
    // empty chunk first / in the middle / body only in the last chunk / the whole 12-byte pool
    sized_lemma([0, 6, 0]);
    sized_lemma([3, 0, 4]);
    sized_lemma([0, 0, 7]);
    sized_lemma([6, 5, 1]);
}

#[kani::proof]
#[kani::stub(tracing::callsite::DefaultCallsite::register, stub_tracing_register)]
#[kani::unwind(14)]
fn c02_until_close_body_more_t() {
    eof_kind_lemma([1, 1, 1]);
    eof_kind_lemma([0, 0, 7]);
    eof_kind_lemma([6, 5, 1]);
}

#[kani::proof]
#[kani::stub(tracing::callsite::DefaultCallsite::register, stub_tracing_register)]
#[kani::unwind(14)]
fn c02_until_close_body() {
    eof_kind_lemma([2, 0, 3]);
    eof_kind_lemma([0, 0, 0]);
}

#[kani::proof]
#[kani::stub(tracing::callsite::DefaultCallsite::register, stub_tracing_register)]
#[kani::unwind(14)]
fn c02_chunked_terminator() {
    // the state space of the terminator logic is 2 flags: enumerated completely
    chunked_terminator_lemma(false, false);
    chunked_terminator_lemma(false, true);
    chunked_terminator_lemma(true, false);
    chunked_terminator_lemma(true, true);
}


#[cfg(test)]
mod playback {
    #[allow(unused_imports)]
    use super::*;
    include!(concat!(env!("VERIF_PLAYBACK"), "/actix_http__h1_encoder.rs"));
}
