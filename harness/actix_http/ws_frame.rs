// crate: actix-http
// module: ws::frame::verif_kani
//
// C14 O-1/O-2/O-4/O-6, C19 — WebSocket frame parser/writer against an RFC 6455 §5.2 reference.
use super::*;
include!(concat!(env!("VERIF_HARNESS"), "/common/tracing_stub.rs"));
use core::mem::forget;

// ---------------------------------------------------------------------------------------------
// Reference header decoder, written from RFC 6455 §5.2.
#[derive(Clone, Copy, PartialEq, Eq)]
enum RefErr {
    Unmasked,
    Masked,
    Opcode(u8),
}

#[derive(Clone, Copy, PartialEq, Eq)]
enum RefHdr {
    NeedMore,
    Err(RefErr),
    Hdr { idx: usize, fin: bool, op: u8, len: u64, mask: Option<[u8; 4]> },
}

fn valid_op(op: u8) -> bool {
    matches!(op, 0 | 1 | 2 | 8 | 9 | 10)
}

fn ref_header(b: &[u8], server: bool) -> RefHdr {
    if b.len() < 2 {
        return RefHdr::NeedMore;
    }
    let fin = b[0] & 0x80 != 0;
    let op = b[0] & 0x0f;
    let masked = b[1] & 0x80 != 0;
    // a server must only accept masked frames, a client must only accept unmasked frames
    if server && !masked {
        return RefHdr::Err(RefErr::Unmasked);
    }
    if !server && masked {
        return RefHdr::Err(RefErr::Masked);
    }
    if !valid_op(op) {
        return RefHdr::Err(RefErr::Opcode(op));
    }
    let l7 = b[1] & 0x7f;
    let (len, mut idx): (u64, usize) = if l7 < 126 {
        (l7 as u64, 2)
    } else if l7 == 126 {
        if b.len() < 4 {
            return RefHdr::NeedMore;
        }
        (((b[2] as u64) << 8) | b[3] as u64, 4)
    } else {
        if b.len() < 10 {
            return RefHdr::NeedMore;
        }
        let mut v = 0u64;
        let mut i = 2;
        while i < 10 {
            v = (v << 8) | b[i] as u64;
            i += 1;
        }
        (v, 10)
    };
    let mask = if masked {
        if b.len() < idx + 4 {
            return RefHdr::NeedMore;
        }
        let m = [b[idx], b[idx + 1], b[idx + 2], b[idx + 3]];
        idx += 4;
        Some(m)
    } else {
        None
    };
    RefHdr::Hdr { idx, fin, op, len, mask }
}

fn op_u8(op: OpCode) -> u8 {
    match op {
        OpCode::Continue => 0,
        OpCode::Text => 1,
        OpCode::Binary => 2,
        OpCode::Close => 8,
        OpCode::Ping => 9,
        OpCode::Pong => 10,
        OpCode::Bad => 255,
    }
}

fn same_meta(
    real: &Result<Option<(usize, bool, OpCode, usize, Option<[u8; 4]>)>, ProtocolError>,
    spec: RefHdr,
) -> bool {
    match (real, spec) {
        (Ok(None), RefHdr::NeedMore) => true,
        (Err(ProtocolError::UnmaskedFrame), RefHdr::Err(RefErr::Unmasked)) => true,
        (Err(ProtocolError::MaskedFrame), RefHdr::Err(RefErr::Masked)) => true,
        (Err(ProtocolError::InvalidOpcode(a)), RefHdr::Err(RefErr::Opcode(b))) => *a == b,
        (Ok(Some((idx, fin, op, len, mask))), RefHdr::Hdr { idx: i2, fin: f2, op: o2, len: l2, mask: m2 }) => {
            *idx == i2 && *fin == f2 && op_u8(*op) == o2 && *len as u64 == l2 && *mask == m2
        }
        _ => false,
    }
}

/// O-1: header decoding == reference for every 14-byte content, every prefix length, both roles.
/// O-4 (segmentation, header part): the verdict on a prefix is "need more" or already the verdict on
/// the whole header (monotone), so re-parsing after more bytes arrive cannot change an answer.
#[kani::proof]
#[kani::stub(tracing::callsite::DefaultCallsite::register, stub_tracing_register)]
#[kani::unwind(16)]
fn c14_header_reference() {
    let bytes: [u8; 14] = kani::any();
    let server: bool = kani::any();
    let n: usize = kani::any();
    let m: usize = kani::any();
    kani::assume(m <= n && n <= 14);
    let rn = Parser::parse_metadata(&bytes[..n], server);
    let rm = Parser::parse_metadata(&bytes[..m], server);
    let sn = ref_header(&bytes[..n], server);
    let sm = ref_header(&bytes[..m], server);
    assert!(same_meta(&rn, sn), "header decoding == RFC 6455 reference");
    assert!(same_meta(&rm, sm), "header decoding of a prefix == RFC 6455 reference");
    // monotone in the prefix length
    if sm != RefHdr::NeedMore {
        assert!(sm == sn, "a verdict reached on a prefix is the verdict on every extension");
    }
    kani::cover!(matches!(sn, RefHdr::Hdr { idx: 14, .. }), "64-bit length, masked: maximal header");
    kani::cover!(matches!(sn, RefHdr::Hdr { idx: 4, len: 126, .. }), "16-bit length at the 126 boundary");
    kani::cover!(matches!(sn, RefHdr::Hdr { len: 65536, .. }), "64-bit length at the 65536 boundary");
    kani::cover!(matches!(sn, RefHdr::Err(RefErr::Opcode(_))), "reserved opcode");
    kani::cover!(sm == RefHdr::NeedMore && matches!(sn, RefHdr::Hdr { .. }), "prefix incomplete, whole complete");
    forget(rn);
    forget(rm);
}

// ---------------------------------------------------------------------------------------------
// O-2 / O-4: `Parser::parse` on header + P available payload bytes (buffer length CONCRETE per call),
// symbolic max_size (<= 2^31: the reserve() arithmetic beyond isize::MAX is known finding F5).
#[derive(Clone, Copy, PartialEq, Eq)]
enum Enc {
    L7,
    L16,
    L64,
}

const PAYMAX: usize = 6;

fn same_slice(a: &[u8], b: &[u8]) -> bool {
    if a.len() != b.len() {
        return false;
    }
    let mut i = 0;
    while i < a.len() {
        if a[i] != b[i] {
            return false;
        }
        i += 1;
    }
    true
}

/// `avail` payload bytes follow a complete header of the given shape.
fn parse_lemma(server: bool, enc: Enc, avail: usize) {
    let hdr_len = 2 + match enc { Enc::L7 => 0, Enc::L16 => 2, Enc::L64 => 8 } + if server { 4 } else { 0 };
    let total = hdr_len + avail;
    let mut bytes: [u8; 14 + PAYMAX] = kani::any();
    // shape the header: role-correct mask bit, chosen length encoding, valid opcode
    let l7 = bytes[1] & 0x7f;
    match enc {
        Enc::L7 => kani::assume(l7 < 126),
        Enc::L16 => kani::assume(l7 == 126),
        Enc::L64 => kani::assume(l7 == 127),
    }
    kani::assume((bytes[1] & 0x80 != 0) == server);
    kani::assume(valid_op(bytes[0] & 0x0f));
    let max_size: usize = kani::any();
    kani::assume(max_size <= 1 << 31);
    let wire = bytes;
    let mut src = BytesMut::from(&bytes[..total]);

    let r = Parser::parse(&mut src, server, max_size);

    let (idx, fin, op, len, mask) = match ref_header(&wire[..total], server) {
        RefHdr::Hdr { idx, fin, op, len, mask } => (idx, fin, op, len, mask),
        _ => {
            assert!(false, "shaped header must be complete and valid");
            return;
        }
    };
    assert!(idx == hdr_len);
    if len > max_size as u64 {
        // "a frame announcing a larger payload is refused without first buffering it"
        assert!(matches!(r, Err(ProtocolError::Overflow)), "announced length > max_size is refused at once");
    } else if (avail as u64) < len {
        assert!(matches!(r, Ok(None)), "incomplete frame: need more data");
        assert!(src.len() == total && same_slice(&src[..], &wire[..total]), "incomplete frame: readable bytes untouched");
    } else {
        let len = len as usize;
        let ctl_too_long = len > 125;
        match &r {
            Ok(Some((f, o, pl))) => {
                if op == 8 && ctl_too_long {
                    assert!(*f && *o == OpCode::Close && pl.is_none(), "over-long close: no payload delivered");
                } else {
                    assert!(!((op == 9 || op == 10) && ctl_too_long), "over-long ping/pong rejected");
                    assert!(*f == fin && op_u8(*o) == op, "fin/opcode == wire");
                    match pl {
                        None => assert!(len == 0, "no payload only for length 0"),
                        Some(p) => {
                            assert!(p.len() == len && len > 0, "payload length exact");
                            assert!(p.len() <= max_size, "no delivered payload exceeds max_size");
                            let mut i = 0;
                            while i < PAYMAX {
                                if i < len {
                                    let w = wire[idx + i];
                                    let expect = match mask {
                                        Some(m) => w ^ m[i & 3],
                                        None => w,
                                    };
                                    assert!(p[i] == expect, "payload == wire XOR mask");
                                }
                                i += 1;
                            }
                        }
                    }
                }
                assert!(src.len() == total - idx - len, "exactly one frame consumed");
                assert!(same_slice(&src[..], &wire[idx + len..total]), "following bytes untouched");
            }
            Err(ProtocolError::InvalidLength(_)) => assert!((op == 9 || op == 10) && ctl_too_long),
            _ => assert!(false, "complete valid frame within max_size must be delivered"),
        }
    }
    kani::cover!(matches!(r, Ok(Some((_, _, Some(_))))), "parse: payload delivered");
    kani::cover!(matches!(r, Ok(None)), "parse: need more");
    kani::cover!(matches!(r, Err(ProtocolError::Overflow)), "parse: overflow");
    kani::cover!(true, "harness end reached");
    forget(r);
    forget(src);
}

/// over-long control frames need 126 payload bytes on the wire: concrete zero payload, symbolic opcode
fn control_len_lemma(server: bool) {
    static ZERO: [u8; 140] = [0; 140];
    let mut hdr: [u8; 8] = kani::any();
    kani::assume(valid_op(hdr[0] & 0x0f));
    hdr[1] = if server { 0x80 | 126 } else { 126 };
    hdr[2] = 0;
    hdr[3] = 126;
    let hl = if server { 8 } else { 4 };
    let mut src = BytesMut::with_capacity(160);
    src.extend_from_slice(&hdr[..hl]);
    src.extend_from_slice(&ZERO[..126]);
    let op = hdr[0] & 0x0f;
    let r = Parser::parse(&mut src, server, 65536);
    match &r {
        Err(ProtocolError::InvalidLength(126)) => assert!(op == 9 || op == 10, "only ping/pong are rejected for length"),
        Ok(Some((f, o, pl))) => {
            if op == 8 {
                assert!(*f && *o == OpCode::Close && pl.is_none());
            } else {
                assert!(op <= 2, "data frames of 126 bytes are delivered");
                assert!(pl.as_ref().is_some_and(|p| p.len() == 126));
            }
        }
        _ => assert!(false),
    }
    assert!(src.is_empty(), "the frame is consumed either way");
    kani::cover!(matches!(r, Err(ProtocolError::InvalidLength(_))), "over-long ping/pong");
    kani::cover!(op == 8, "over-long close");
    forget(r);
    forget(src);
}

// ---------------------------------------------------------------------------------------------
// O-6 round trip: write_message at one role, parse at the other: same (fin, opcode, payload).
// NOTE: every harness that makes `Parser::write_message` reachable must carry this stub, masked or not:
// with the real `rand::random` reachable the Kani compiler crashes (chacha20 SIMD intrinsics).
fn stub_random<T>() -> T {
    // any 4 bytes (the only instantiation reached is [u8; 4], the frame mask)
    let mut v = core::mem::MaybeUninit::<T>::uninit();
    let p = v.as_mut_ptr() as *mut u8;
    let mut i = 0;
    while i < core::mem::size_of::<T>() {
        unsafe { *p.add(i) = kani::any() };
        i += 1;
    }
    unsafe { v.assume_init() }
}

fn roundtrip_lemma(sender_is_client: bool, len: usize) {
    roundtrip_lemma_queued(sender_is_client, len, 0)
}

/// `queued` bytes of earlier frames are already waiting in the write buffer (several messages encoded
/// before a flush): they must stay untouched and the new frame must still decode to the same message.
fn roundtrip_lemma_queued(sender_is_client: bool, len: usize, queued: usize) {
    let payload: [u8; PAYMAX] = kani::any();
    let fin: bool = kani::any();
    let opb: u8 = kani::any();
    kani::assume(valid_op(opb));
    let op = OpCode::from(opb);
    let mut wire = BytesMut::with_capacity(64);
    let earlier: [u8; 5] = kani::any();
    wire.extend_from_slice(&earlier[..queued]);
    Parser::write_message(&mut wire, &payload[..len], op, fin, sender_is_client);
    assert!(wire.len() == queued + 2 + if sender_is_client { 4 } else { 0 } + len, "frame length on the wire");
    assert!(same_slice(&wire[..queued], &earlier[..queued]), "frames already queued in the buffer are not touched");
    let _ = wire.split_to(queued);
    let r = Parser::parse(&mut wire, sender_is_client, 65536);
    match &r {
        Ok(Some((f, o, pl))) => {
            assert!(*f == fin && *o == op, "fin/opcode survive the round trip");
            match pl {
                None => assert!(len == 0),
                Some(p) => assert!(same_slice(&p[..], &payload[..len]), "payload survives the round trip"),
            }
        }
        _ => assert!(false, "a written frame parses at the other role"),
    }
    assert!(wire.is_empty());
    kani::cover!(true, "harness end reached");
    forget(r);
    forget(wire);
}

/// header-only round trip at the length-encoding boundaries (static zero payload)
fn roundtrip_boundary(len: usize) {
    static ZERO: [u8; 130] = [0; 130];
    let fin: bool = kani::any();
    let mut wire = BytesMut::with_capacity(160);
    Parser::write_message(&mut wire, &ZERO[..len], OpCode::Binary, fin, false);
    let total = wire.len();
    let r = Parser::parse_metadata(&wire[..], false);
    match r {
        Ok(Some((idx, f, op, l, mask))) => {
            assert!(f == fin && op == OpCode::Binary && l == len && mask.is_none());
            assert!(idx + l == total, "header + payload == bytes written");
            let want_idx = if len < 126 { 2 } else if len <= 65_535 { 4 } else { 10 };
            assert!(idx == want_idx, "shortest length encoding chosen");
        }
        _ => assert!(false),
    }
    kani::cover!(true, "harness end reached");
    forget(wire);
}

// ---------------------------------------------------------------------------------------------
// C19: NO input assumption except the length bound and max_size <= 2^31: any bytes, any role, any
// max_size: `Parser::parse` returns (no panic, overflow, out-of-bounds, unwrap) and never delivers a
// payload above max_size.  Buffer length concrete per call.
fn parse_any(total: usize) {
    let bytes: [u8; 14 + PAYMAX] = kani::any();
    let server: bool = kani::any();
    let max_size: usize = kani::any();
    kani::assume(max_size <= 1 << 31);
    let mut src = BytesMut::from(&bytes[..total]);
    let r = Parser::parse(&mut src, server, max_size);
    match &r {
        Ok(Some((_, _, Some(p)))) => assert!(p.len() <= max_size && p.len() <= total, "delivered payload within max_size"),
        Ok(Some((_, _, None))) => {}
        Ok(None) => assert!(src.len() == total, "need-more consumes nothing"),
        Err(_) => {}
    }
    assert!(src.len() <= total, "the buffer never grows by parsing");
    kani::cover!(matches!(r, Ok(Some(_))), "parse_any: frame");
    kani::cover!(r.is_err(), "parse_any: error");
    kani::cover!(matches!(r, Ok(None)), "parse_any: need more");
    forget(r);
    forget(src);
}

// ---- harness instances (generated)
#[kani::proof]
#[kani::stub(tracing::callsite::DefaultCallsite::register, stub_tracing_register)]
#[kani::unwind(22)]
fn c14_parse_server_l7() {
    parse_lemma(true, Enc::L7, 0);
    parse_lemma(true, Enc::L7, 1);
    parse_lemma(true, Enc::L7, 2);
}
#[kani::proof]
#[kani::stub(tracing::callsite::DefaultCallsite::register, stub_tracing_register)]
#[kani::unwind(22)]
fn c14_parse_server_l7_more_t() {
    parse_lemma(true, Enc::L7, 4);
    parse_lemma(true, Enc::L7, 6);
}
#[kani::proof]
#[kani::stub(tracing::callsite::DefaultCallsite::register, stub_tracing_register)]
#[kani::unwind(22)]
fn c14_parse_server_l16() {
    parse_lemma(true, Enc::L16, 0);
    parse_lemma(true, Enc::L16, 1);
    parse_lemma(true, Enc::L16, 2);
}
#[kani::proof]
#[kani::stub(tracing::callsite::DefaultCallsite::register, stub_tracing_register)]
#[kani::unwind(22)]
fn c14_parse_server_l16_more_t() {
    parse_lemma(true, Enc::L16, 4);
    parse_lemma(true, Enc::L16, 6);
}
#[kani::proof]
#[kani::stub(tracing::callsite::DefaultCallsite::register, stub_tracing_register)]
#[kani::unwind(22)]
fn c14_parse_server_l64() {
    parse_lemma(true, Enc::L64, 0);
    parse_lemma(true, Enc::L64, 1);
    parse_lemma(true, Enc::L64, 2);
}
#[kani::proof]
#[kani::stub(tracing::callsite::DefaultCallsite::register, stub_tracing_register)]
#[kani::unwind(22)]
fn c14_parse_server_l64_more_t() {
    parse_lemma(true, Enc::L64, 4);
    parse_lemma(true, Enc::L64, 6);
}
#[kani::proof]
#[kani::stub(tracing::callsite::DefaultCallsite::register, stub_tracing_register)]
#[kani::unwind(22)]
fn c14_parse_client_l7() {
    parse_lemma(false, Enc::L7, 0);
    parse_lemma(false, Enc::L7, 1);
    parse_lemma(false, Enc::L7, 2);
}
#[kani::proof]
#[kani::stub(tracing::callsite::DefaultCallsite::register, stub_tracing_register)]
#[kani::unwind(22)]
fn c14_parse_client_l7_more_t() {
    parse_lemma(false, Enc::L7, 4);
    parse_lemma(false, Enc::L7, 6);
}
#[kani::proof]
#[kani::stub(tracing::callsite::DefaultCallsite::register, stub_tracing_register)]
#[kani::unwind(22)]
fn c14_parse_client_l16() {
    parse_lemma(false, Enc::L16, 0);
    parse_lemma(false, Enc::L16, 1);
    parse_lemma(false, Enc::L16, 2);
}
#[kani::proof]
#[kani::stub(tracing::callsite::DefaultCallsite::register, stub_tracing_register)]
#[kani::unwind(22)]
fn c14_parse_client_l16_more_t() {
    parse_lemma(false, Enc::L16, 4);
    parse_lemma(false, Enc::L16, 6);
}
#[kani::proof]
#[kani::stub(tracing::callsite::DefaultCallsite::register, stub_tracing_register)]
#[kani::unwind(22)]
fn c14_parse_client_l64() {
    parse_lemma(false, Enc::L64, 0);
    parse_lemma(false, Enc::L64, 1);
    parse_lemma(false, Enc::L64, 2);
}
#[kani::proof]
#[kani::stub(tracing::callsite::DefaultCallsite::register, stub_tracing_register)]
#[kani::unwind(22)]
fn c14_parse_client_l64_more_t() {
    parse_lemma(false, Enc::L64, 4);
    parse_lemma(false, Enc::L64, 6);
}
#[kani::proof]
#[kani::stub(tracing::callsite::DefaultCallsite::register, stub_tracing_register)]
#[kani::unwind(130)]
fn c14_control_frame_length() {
    // client role (unmasked input): the length rule is applied before unmasking, so the role does not
    // matter; unmasking 126 bytes under a symbolic mask costs >15 min
    control_len_lemma(false);
}
#[kani::proof]
#[kani::stub(tracing::callsite::DefaultCallsite::register, stub_tracing_register)]
#[kani::stub(rand::random, stub_random)]
#[kani::unwind(12)]
fn c14_roundtrip_client_to_server() {
    roundtrip_lemma(true, 0);
    roundtrip_lemma(true, 1);
    roundtrip_lemma(true, 3);
}
#[kani::proof]
#[kani::stub(tracing::callsite::DefaultCallsite::register, stub_tracing_register)]
#[kani::stub(rand::random, stub_random)]
#[kani::unwind(12)]
fn c14_roundtrip_client_to_server_more_t() {
    roundtrip_lemma(true, 4);
    roundtrip_lemma(true, 5);
    roundtrip_lemma(true, 6);
}
#[kani::proof]
#[kani::stub(tracing::callsite::DefaultCallsite::register, stub_tracing_register)]
#[kani::stub(rand::random, stub_random)]
#[kani::unwind(12)]
fn c14_roundtrip_server_to_client() {
    roundtrip_lemma(false, 0);
    roundtrip_lemma(false, 1);
    roundtrip_lemma(false, 3);
}
#[kani::proof]
#[kani::stub(tracing::callsite::DefaultCallsite::register, stub_tracing_register)]
#[kani::stub(rand::random, stub_random)]
#[kani::unwind(12)]
fn c14_roundtrip_server_to_client_more_t() {
    roundtrip_lemma(false, 4);
    roundtrip_lemma(false, 5);
    roundtrip_lemma(false, 6);
}
#[kani::proof]
#[kani::stub(tracing::callsite::DefaultCallsite::register, stub_tracing_register)]
#[kani::stub(rand::random, stub_random)]
#[kani::unwind(12)]
fn c14_roundtrip_into_nonempty_buffer() {
    roundtrip_lemma_queued(true, 2, 1);
    roundtrip_lemma_queued(true, 3, 3);
    roundtrip_lemma_queued(false, 2, 2);
}
#[kani::proof]
#[kani::stub(tracing::callsite::DefaultCallsite::register, stub_tracing_register)]
#[kani::stub(rand::random, stub_random)]
#[kani::unwind(4)]
fn c14_roundtrip_length_boundaries() {
    // 65535/65536 are outside the claim on the WRITE side (a 64 KiB payload copy exhausts CBMC's memory);
    // the read side of those boundaries is decided by c14_header_reference
    roundtrip_boundary(125);
    roundtrip_boundary(126);
}

#[kani::proof]
#[kani::stub(tracing::callsite::DefaultCallsite::register, stub_tracing_register)]
#[kani::unwind(22)]
fn c19_ws_parse_any_bytes_short() {
    parse_any(0);
    parse_any(1);
    parse_any(2);
    parse_any(3);
    parse_any(6);
}
#[kani::proof]
#[kani::stub(tracing::callsite::DefaultCallsite::register, stub_tracing_register)]
#[kani::unwind(22)]
fn c19_ws_parse_any_bytes_10_14() {
    parse_any(10);
    parse_any(14);
}
#[kani::proof]
#[kani::stub(tracing::callsite::DefaultCallsite::register, stub_tracing_register)]
#[kani::unwind(22)]
fn c19_ws_parse_any_bytes_16_20_t() {
    parse_any(16);
    parse_any(20);
}

#[cfg(test)]
mod playback {
    #[allow(unused_imports)]
    use super::*;
    include!(concat!(env!("VERIF_PLAYBACK"), "/actix_http__ws_frame.rs"));
}
