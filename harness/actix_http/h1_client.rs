// crate: actix-http
// module: h1::client::verif_kani
//
// C17 O-2 — end of connection while a response body is being read: `ClientPayloadCodec::decode_eof`
// (what `Framed` calls when the socket reports EOF) must not turn a body that is shorter than its
// framing into a clean end.  See DESIGN.md §3 C17.
use super::*;
include!(concat!(env!("VERIF_HARNESS"), "/common/tracing_stub.rs"));
use core::mem::forget;

/// A payload codec around `payload`.  `config` is never read by `decode`/`decode_eof`; it is a dangling
/// `Rc` that is forgotten at the end (any access would be flagged by CBMC's pointer checks), which
/// avoids `ServiceConfig::default()` (spawns the date task, reads the clock).
fn codec(payload: Option<PayloadDecoder>) -> ClientPayloadCodec {
    let config: ServiceConfig = unsafe { core::mem::transmute(core::ptr::NonNull::<u8>::dangling()) };
    ClientPayloadCodec {
        inner: ClientCodecInner {
            config,
            decoder: decoder::MessageDecoder::default(),
            payload,
            version: Version::HTTP_11,
            conn_type: ConnectionType::KeepAlive,
            flags: Flags::KEEP_ALIVE_ENABLED,
            encoder: encoder::MessageEncoder::default(),
        },
    }
}

#[derive(Clone, Copy, PartialEq, Eq)]
enum Framing {
    /// Content-Length with this many bytes still missing
    Length,
    /// chunked, positioned by feeding this concrete prefix; `complete` = the prefix is a whole body
    Chunked(&'static [u8], bool),
    UntilClose,
}

/// Socket EOF with `n` (concrete) symbolic bytes still unread in the buffer.
fn eof_lemma(f: Framing, n: usize) {
    let bytes: [u8; 2] = kani::any();
    let rem: u64 = kani::any();
    let mut src = BytesMut::new();
    let pl = match f {
        Framing::Length => PayloadDecoder::length(rem),
        Framing::UntilClose => PayloadDecoder::eof(),
        Framing::Chunked(prefix, _) => {
            // position the real decoder by decoding a concrete prefix (data chunks inside the prefix are
            // consumed and dropped here)
            let mut d = PayloadDecoder::chunked();
            let mut pre = BytesMut::from(prefix);
            let mut i = 0;
            while i < 4 && !pre.is_empty() {
                match d.decode(&mut pre) {
                    Ok(Some(PayloadItem::Eof)) => break,
                    Ok(Some(PayloadItem::Chunk(c))) => forget(c),
                    Ok(None) => break,
                    Err(_) => assert!(false, "prefix must be well-formed"),
                }
                i += 1;
            }
            assert!(pre.is_empty());
            forget(pre);
            d
        }
    };
    let terminal = match f {
        Framing::Length => rem == 0,
        Framing::Chunked(_, complete) => complete,
        Framing::UntilClose => false,
    };
    src.extend_from_slice(&bytes[..n]);
    // ManuallyDrop: the dangling config must never be dropped, not even when a failed assertion unwinds
    let mut c = core::mem::ManuallyDrop::new(codec(Some(pl)));

    let r = c.decode_eof(&mut src);

    match &r {
        // clean end of the byte stream
        Ok(None) => {
            assert!(f == Framing::UntilClose, "EOF before the framed length is reached must be an error, not a clean end");
        }
        // end-of-body marker
        Ok(Some(None)) => {
            assert!(f != Framing::UntilClose);
            if f == Framing::Length {
                assert!(rem == 0, "Content-Length body complete only when all declared bytes arrived");
            }
            if let Framing::Chunked(_, complete) = f {
                // with <= 2 more bytes the only ways to finish: already at End, or EndCr/EndLf + the bytes
                assert!(complete || n > 0, "chunked body complete only after the terminating CRLF");
            }
        }
        // data: fine, Framed calls decode_eof again afterwards
        Ok(Some(Some(chunk))) => {
            assert!(n > 0 && chunk.len() <= n && !chunk.is_empty());
            if f == Framing::Length {
                assert!(chunk.len() as u64 <= rem);
            }
        }
        Err(_) => {
            assert!(!terminal, "a complete body is not an error");
            assert!(f != Framing::UntilClose, "until-close bodies end at EOF");
        }
    }
    kani::cover!(r.is_err(), "eof: truncated body reported as error");
    kani::cover!(matches!(r, Ok(Some(None))), "eof: end of body");
    kani::cover!(matches!(r, Ok(Some(Some(_)))), "eof: leftover data delivered");
    kani::cover!(matches!(r, Ok(None)), "eof: clean end of stream");
    kani::cover!(true, "harness end reached");
    forget(r);
    forget(src);
}

// ---- harness instances (generated): unread byte count concrete, groups of decoder positions in turn
#[kani::proof]
#[kani::stub(tracing::callsite::DefaultCallsite::register, stub_tracing_register)]
#[kani::unwind(8)]
fn c17_eof_length_and_until_close_b0() {
    eof_lemma(Framing::Length, 0);
    eof_lemma(Framing::UntilClose, 0);
}
#[kani::proof]
#[kani::stub(tracing::callsite::DefaultCallsite::register, stub_tracing_register)]
#[kani::unwind(8)]
fn c17_eof_chunked_size_line_b0() {
    eof_lemma(Framing::Chunked(b"", false), 0);
    eof_lemma(Framing::Chunked(b"1", false), 0);
    eof_lemma(Framing::Chunked(b"1 ", false), 0);
    eof_lemma(Framing::Chunked(b"1;x", false), 0);
    eof_lemma(Framing::Chunked(b"1\r", false), 0);
}
#[kani::proof]
#[kani::stub(tracing::callsite::DefaultCallsite::register, stub_tracing_register)]
#[kani::unwind(8)]
fn c17_eof_chunked_data_b0() {
    eof_lemma(Framing::Chunked(b"2\r\n", false), 0);
    eof_lemma(Framing::Chunked(b"2\r\na", false), 0);
    eof_lemma(Framing::Chunked(b"1\r\na", false), 0);
    eof_lemma(Framing::Chunked(b"1\r\na\r", false), 0);
}
#[kani::proof]
#[kani::stub(tracing::callsite::DefaultCallsite::register, stub_tracing_register)]
#[kani::unwind(8)]
fn c17_eof_chunked_end_b0() {
    eof_lemma(Framing::Chunked(b"1\r\na\r\n", false), 0);
    eof_lemma(Framing::Chunked(b"0\r\n", false), 0);
    eof_lemma(Framing::Chunked(b"0\r\n\r", false), 0);
    eof_lemma(Framing::Chunked(b"0\r\n\r\n", true), 0);
}
#[kani::proof]
#[kani::stub(tracing::callsite::DefaultCallsite::register, stub_tracing_register)]
#[kani::unwind(8)]
fn c17_eof_length_and_until_close_b1() {
    eof_lemma(Framing::Length, 1);
    eof_lemma(Framing::UntilClose, 1);
}
#[kani::proof]
#[kani::stub(tracing::callsite::DefaultCallsite::register, stub_tracing_register)]
#[kani::unwind(8)]
fn c17_eof_chunked_size_line_b1() {
    eof_lemma(Framing::Chunked(b"", false), 1);
    eof_lemma(Framing::Chunked(b"1", false), 1);
    eof_lemma(Framing::Chunked(b"1 ", false), 1);
    eof_lemma(Framing::Chunked(b"1;x", false), 1);
    eof_lemma(Framing::Chunked(b"1\r", false), 1);
}
#[kani::proof]
#[kani::stub(tracing::callsite::DefaultCallsite::register, stub_tracing_register)]
#[kani::unwind(8)]
fn c17_eof_chunked_data_b1() {
    eof_lemma(Framing::Chunked(b"2\r\n", false), 1);
    eof_lemma(Framing::Chunked(b"2\r\na", false), 1);
    eof_lemma(Framing::Chunked(b"1\r\na", false), 1);
    eof_lemma(Framing::Chunked(b"1\r\na\r", false), 1);
}
#[kani::proof]
#[kani::stub(tracing::callsite::DefaultCallsite::register, stub_tracing_register)]
#[kani::unwind(8)]
fn c17_eof_chunked_end_b1() {
    eof_lemma(Framing::Chunked(b"1\r\na\r\n", false), 1);
    eof_lemma(Framing::Chunked(b"0\r\n", false), 1);
    eof_lemma(Framing::Chunked(b"0\r\n\r", false), 1);
    eof_lemma(Framing::Chunked(b"0\r\n\r\n", true), 1);
}
#[kani::proof]
#[kani::stub(tracing::callsite::DefaultCallsite::register, stub_tracing_register)]
#[kani::unwind(8)]
fn c17_eof_length_and_until_close_b2_t() {
    eof_lemma(Framing::Length, 2);
    eof_lemma(Framing::UntilClose, 2);
}
// (c17_eof_chunked_{size_line,data,end}_b2_t removed: two unread bytes from the positions next to the end of the body make
// the decode loop run twice from a symbolic intermediate state: unfinished at 42 min)

#[cfg(test)]
mod playback {
    #[allow(unused_imports)]
    use super::*;
    include!(concat!(env!("VERIF_PLAYBACK"), "/actix_http__h1_client.rs"));
}
