// (not registered, no hook in /repo) crate-was: actix-http
// module: body::utils::verif_kani
//
// C12 O-1 — limited body collection (`to_bytes_limited`): generic over the body (static dispatch, no
// `dyn`), driven by polling the real async fn's future by hand.
use super::*;
include!(concat!(env!("VERIF_HARNESS"), "/common/tracing_stub.rs"));
use core::{
    future::Future,
    mem::forget,
    pin::Pin,
    task::{Context, RawWaker, RawWakerVTable, Waker},
};

static POOL: [u8; 12] = [7, 1, 8, 2, 8, 1, 8, 2, 8, 4, 5, 9];

/// Body whose state lives in scalar statics (see kani-feasibility notes: heap/boxed state is byte-level
/// for CBMC): yields N chunks of concrete lengths out of POOL, optional Pending before each.
struct Chunks;
static mut LENS: [usize; 3] = [0; 3];
static mut N: usize = 0;
static mut I: usize = 0;
static mut OFF: usize = 0;
static mut PEND0: bool = false;
static mut PEND1: bool = false;
static mut PEND2: bool = false;
static mut POLLS: u32 = 0;
static mut DECLARED: Option<u64> = None;

impl MessageBody for Chunks {
    type Error = core::convert::Infallible;
    fn size(&self) -> BodySize {
        match unsafe { DECLARED } {
            Some(n) => BodySize::Sized(n),
            None => BodySize::Stream,
        }
    }
    fn poll_next(self: Pin<&mut Self>, _cx: &mut Context<'_>) -> Poll<Option<Result<Bytes, Self::Error>>> {
        unsafe {
            POLLS += 1;
            if I == N {
                return Poll::Ready(None);
            }
            let pend = match I {
                0 => &mut PEND0,
                1 => &mut PEND1,
                _ => &mut PEND2,
            };
            if *pend {
                *pend = false;
                return Poll::Pending;
            }
            let l = LENS[I];
            let b = Bytes::from_static(&POOL[OFF..OFF + l]);
            OFF += l;
            I += 1;
            Poll::Ready(Some(Ok(b)))
        }
    }
}

unsafe fn vt_clone(p: *const ()) -> RawWaker {
    RawWaker::new(p, &VT)
}
unsafe fn vt_noop(_: *const ()) {}
static VT: RawWakerVTable = RawWakerVTable::new(vt_clone, vt_noop, vt_noop, vt_noop);

/// chunk lengths concrete, limit symbolic; `sized`: the body declares its exact size up front.
fn limited_lemma(lens: [usize; 3], n: usize, sized: bool) {
    let total: usize = lens[0] + lens[1] + lens[2];
    let limit: usize = kani::any();
    kani::assume(limit <= 16);
    unsafe {
        LENS = lens;
        N = n;
        I = 0;
        OFF = 0;
        PEND0 = kani::any();
        PEND1 = kani::any();
        PEND2 = kani::any();
        POLLS = 0;
        DECLARED = if sized { Some(total as u64) } else { None };
    }
    let fut = to_bytes_limited(Chunks, limit);
    let mut fut = core::pin::pin!(fut);
    let waker = unsafe { Waker::from_raw(RawWaker::new(core::ptr::null(), &VT)) };
    let mut cx = Context::from_waker(&waker);
    let mut out = Poll::Pending;
    let mut k = 0;
    while k < 4 {
        if out.is_pending() {
            out = fut.as_mut().poll(&mut cx);
        }
        k += 1;
    }
    match &out {
        Poll::Pending => assert!(false, "3 chunks with at most 3 Pendings finish within 4 polls"),
        Poll::Ready(Ok(Ok(b))) => {
            assert!(total <= limit, "collected only if the whole body is within the limit");
            assert!(b.len() == total, "collected body is the concatenation of the chunks");
            let mut i = 0;
            while i < total {
                assert!(b[i] == POOL[i], "bytes exact and in order");
                i += 1;
            }
        }
        Poll::Ready(Ok(Err(_))) => assert!(false, "this body never fails"),
        Poll::Ready(Err(_)) => {
            assert!(total > limit, "limit error only if the body exceeds the limit");
            if sized && total > 0 {
                assert!(unsafe { POLLS } == 0, "a declared size over the limit fails before the body is polled");
            }
        }
    }
    kani::cover!(matches!(out, Poll::Ready(Ok(Ok(_)))) && total == limit, "body exactly at the limit collected");
    kani::cover!(matches!(out, Poll::Ready(Err(_))) && total == limit + 1, "one byte over the limit");
    kani::cover!(true, "harness end reached");
    forget(out);
}

#[kani::proof]
#[kani::stub(tracing::callsite::DefaultCallsite::register, stub_tracing_register)]
#[kani::unwind(11)]
fn c12_to_bytes_limited_stream_3_2_4() {
    limited_lemma([3, 2, 4], 3, false);
}

#[kani::proof]
#[kani::stub(tracing::callsite::DefaultCallsite::register, stub_tracing_register)]
#[kani::unwind(11)]
fn c12_to_bytes_limited_stream_5_4() {
    limited_lemma([5, 4, 0], 2, false);
}

#[kani::proof]
#[kani::stub(tracing::callsite::DefaultCallsite::register, stub_tracing_register)]
#[kani::unwind(11)]
fn c12_to_bytes_limited_sized_and_empty() {
    limited_lemma([5, 4, 0], 2, true);
    limited_lemma([0, 0, 0], 0, false);
}

#[cfg(test)]
mod playback {
    #[allow(unused_imports)]
    use super::*;
    include!(concat!(env!("VERIF_PLAYBACK"), "/actix_http__body_utils.rs"));
}
