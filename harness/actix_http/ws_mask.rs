// crate: actix-http
// module: ws::mask::verif_kani
//
// C14 O-3 — masking kernel: `apply_mask` (unsafe align_to_mut fast path) == byte-wise XOR with the
// 4-byte mask, for every sub-slice start alignment and length, and touches nothing outside.
use super::*;

fn mask_lemma<const LEN: usize>() {
    // u32-aligned backing store so that `off` controls the alignment of the slice start exactly
    let mut words: [u32; 6] = kani::any();
    let orig = words;
    let mask: [u8; 4] = kani::any();
    let off: usize = kani::any();
    kani::assume(off <= 3);
    let len: usize = LEN; // concrete per harness; offset, contents and mask symbolic
    {
        let bytes: &mut [u8; 24] = unsafe { &mut *(words.as_mut_ptr() as *mut [u8; 24]) };
        apply_mask(&mut bytes[off..off + len], mask);
    }
    let before: &[u8; 24] = unsafe { &*(orig.as_ptr() as *const [u8; 24]) };
    let after: &[u8; 24] = unsafe { &*(words.as_ptr() as *const [u8; 24]) };
    let mut i = 0;
    while i < 24 {
        if i >= off && i < off + len {
            assert!(after[i] == before[i] ^ mask[(i - off) & 3], "masked byte == byte XOR mask[(i) mod 4]");
        } else {
            assert!(after[i] == before[i], "bytes outside the slice untouched");
        }
        i += 1;
    }
    kani::cover!(off == 0 && LEN >= 4, "aligned start: fast path from the first byte");
    kani::cover!(off == 1, "prefix of 3 unaligned bytes");
    kani::cover!(off == 3, "prefix of 1 unaligned byte");
    kani::cover!(true, "harness end reached");
}

// involution: unmask(mask(x)) == x (what makes the client->server round trip lossless)
fn involution_lemma<const LEN: usize>() {
    let mut words: [u32; 6] = kani::any();
    let orig = words;
    let mask: [u8; 4] = kani::any();
    let off: usize = kani::any();
    kani::assume(off <= 3);
    {
        let bytes: &mut [u8; 24] = unsafe { &mut *(words.as_mut_ptr() as *mut [u8; 24]) };
        apply_mask(&mut bytes[off..off + LEN], mask);
        apply_mask(&mut bytes[off..off + LEN], mask);
    }
    let mut i = 0;
    while i < 6 {
        assert!(words[i] == orig[i], "mask applied twice is the identity");
        i += 1;
    }
    kani::cover!(true, "harness end reached");
}

// ---- harness instances (generated): slice length concrete, start offset 0..3 / contents / mask symbolic
#[kani::proof]
#[kani::unwind(26)]
fn c14_mask_len0_3() {
    mask_lemma::<0>();
    mask_lemma::<1>();
    mask_lemma::<2>();
    mask_lemma::<3>();
}
#[kani::proof]
#[kani::unwind(26)]
fn c14_mask_len4_7() {
    mask_lemma::<4>();
    mask_lemma::<5>();
    mask_lemma::<6>();
    mask_lemma::<7>();
}
#[kani::proof]
#[kani::unwind(26)]
fn c14_mask_len8_11() {
    mask_lemma::<8>();
    mask_lemma::<9>();
    mask_lemma::<10>();
    mask_lemma::<11>();
}
#[kani::proof]
#[kani::unwind(26)]
fn c14_mask_len12_13() {
    mask_lemma::<12>();
    mask_lemma::<13>();
}
#[kani::proof]
#[kani::unwind(26)]
fn c14_mask_len16_20_t() {
    mask_lemma::<16>();
    mask_lemma::<17>();
    mask_lemma::<19>();
    mask_lemma::<20>();
}
#[kani::proof]
#[kani::unwind(26)]
fn c14_mask_involution() {
    involution_lemma::<5>();
    involution_lemma::<9>();
}

#[cfg(test)]
mod playback {
    #[allow(unused_imports)]
    use super::*;
    include!(concat!(env!("VERIF_PLAYBACK"), "/actix_http__ws_mask.rs"));
}
