// crate: actix-http
// module: ws::mask::verif_kani
//
// C14 O-3 — masking kernel: `apply_mask` (unsafe align_to_mut fast path) == byte-wise XOR with the
// 4-byte mask, for every sub-slice start alignment and length, and touches nothing outside.
use super::*;
include!(concat!(env!("VERIF_HARNESS"), "/common/tracing_stub.rs"));

fn mask_lemma(max_len: usize) {
    // u32-aligned backing store so that `off` controls the alignment of the slice start exactly
    let mut words: [u32; 6] = kani::any();
    let orig = words;
    let mask: [u8; 4] = kani::any();
    let off: usize = kani::any();
    let len: usize = kani::any();
    kani::assume(off <= 3 && len <= max_len);
    {
        let bytes: &mut [u8; 24] = unsafe { &mut *(words.as_mut_ptr() as *mut [u8; 24]) };
        apply_mask(&mut bytes[off..off + len], mask);
    }
    let before: &[u8; 24] = unsafe { &*(orig.as_ptr() as *const [u8; 24]) };
    let after: &[u8; 24] = unsafe { &*(words.as_ptr() as *const [u8; 24]) };
    let mut i = 0;
    while i < 24 {
        if i >= off && i < off + len {
            assert!(after[i] == before[i] ^ mask[(i - off) & 3], "masked byte == byte XOR mask[(i) mod 4]");
        } else {
            assert!(after[i] == before[i], "bytes outside the slice untouched");
        }
        i += 1;
    }
    kani::cover!(off == 0 && len >= 8, "aligned start: fast path from the first byte");
    kani::cover!(off == 1 && len >= 8, "prefix of 3 unaligned bytes then whole words");
    kani::cover!(off == 3 && len == 6, "prefix of 1 unaligned byte, one word, 1 suffix byte");
    kani::cover!(len == 0, "empty slice");
    kani::cover!(max_len >= 20 && off == 1 && len >= 17, "long slice, 3-byte unaligned prefix, four whole words");
    kani::cover!(max_len >= 20 && off == 3 && len >= 17, "long slice, 1-byte unaligned prefix");
    kani::cover!(true, "harness end reached");
}

// involution: unmask(mask(x)) == x (what makes the client->server round trip lossless)
fn involution_lemma<const LEN: usize>() {
    let mut words: [u32; 6] = kani::any();
    let orig = words;
    let mask: [u8; 4] = kani::any();
    let off: usize = kani::any();
    kani::assume(off <= 3);
    {
        let bytes: &mut [u8; 24] = unsafe { &mut *(words.as_mut_ptr() as *mut [u8; 24]) };
        apply_mask(&mut bytes[off..off + LEN], mask);
        apply_mask(&mut bytes[off..off + LEN], mask);
    }
    let mut i = 0;
    while i < 6 {
        assert!(words[i] == orig[i], "mask applied twice is the identity");
        i += 1;
    }
    kani::cover!(true, "harness end reached");
}

// ---- harness instances: slice start offset 0..3, length 0..=N, contents and mask all symbolic
#[kani::proof]
#[kani::stub(tracing::callsite::DefaultCallsite::register, stub_tracing_register)]
#[kani::unwind(26)]
fn c14_mask_len_le12() {
    mask_lemma(12);
}
#[kani::proof]
#[kani::stub(tracing::callsite::DefaultCallsite::register, stub_tracing_register)]
#[kani::unwind(26)]
fn c14_mask_len_le20() {
    mask_lemma(20);
}
#[kani::proof]
#[kani::stub(tracing::callsite::DefaultCallsite::register, stub_tracing_register)]
#[kani::unwind(26)]
fn c14_mask_involution() {
    involution_lemma::<5>();
    involution_lemma::<9>();
}

#[cfg(test)]
mod playback {
    #[allow(unused_imports)]
    use super::*;
    include!(concat!(env!("VERIF_PLAYBACK"), "/actix_http__ws_mask.rs"));
}
