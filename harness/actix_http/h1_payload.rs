// crate: actix-http
// module: h1::payload::verif_kani
//
// C07 — request-body channel (h1::payload). One operation of the REAL channel from an arbitrary
// representation-invariant-satisfying state; see DESIGN.md §3 C07.
use super::*;
use core::mem::forget;

include!(concat!(env!("VERIF_HARNESS"), "/common/waker.rs"));
use vwaker::{mk as mk_waker, wakes};

const ITEM_MAX: usize = 35_000; // straddles MAX_BUFFER_SIZE = 32768 with one or two items
static POOL: [u8; ITEM_MAX * 5] = [0; ITEM_MAX * 5];

const READER: usize = 0; // waker ids
const FEEDER: usize = 1;
const OTHER: usize = 2;

#[derive(Clone, Copy, PartialEq, Eq)]
enum ErrTag {
    None,
    Incomplete,
    EncodingCorrupted,
    Overflow,
    UnknownLength,
    Other,
}

fn tag_of(e: &Option<PayloadError>) -> ErrTag {
    match e {
        None => ErrTag::None,
        Some(PayloadError::Incomplete(None)) => ErrTag::Incomplete,
        Some(PayloadError::EncodingCorrupted) => ErrTag::EncodingCorrupted,
        Some(PayloadError::Overflow) => ErrTag::Overflow,
        Some(PayloadError::UnknownLength) => ErrTag::UnknownLength,
        Some(_) => ErrTag::Other,
    }
}

fn any_err() -> Option<PayloadError> {
    match kani::any::<u8>() % 5 {
        0 => None,
        1 => Some(PayloadError::Incomplete(None)),
        2 => Some(PayloadError::EncodingCorrupted),
        3 => Some(PayloadError::Overflow),
        _ => Some(PayloadError::UnknownLength),
    }
}

fn any_real_err() -> PayloadError {
    match kani::any::<u8>() % 4 {
        0 => PayloadError::Incomplete(None),
        1 => PayloadError::EncodingCorrupted,
        2 => PayloadError::Overflow,
        _ => PayloadError::UnknownLength,
    }
}

/// Ghost copy of the abstract state: item identities are (pointer, length) pairs into POOL.
#[derive(Clone, Copy)]
struct Ghost<const N: usize> {
    n: usize,
    ptr: [*const u8; N],
    len: [usize; N],
    total: usize,
    eof: bool,
    err: ErrTag,
    sender_closed: bool,
    need_read: bool,
    task: Option<usize>,
    io_task: Option<usize>,
}

fn any_waker_slot(candidates: [usize; 2]) -> Option<usize> {
    match kani::any::<u8>() % 3 {
        0 => None,
        1 => Some(candidates[0]),
        _ => Some(candidates[1]),
    }
}

/// Arbitrary `Inner` satisfying the representation invariant I (DESIGN.md C07):
///   len == sum of queued item lengths; eof => sender_closed; err.is_some() => sender_closed;
///   !need_read => len >= MAX_BUFFER_SIZE.
fn any_inner<const N: usize>(inner: &mut Inner) -> Ghost<N> {
    // the number of queued items is CONCRETE per harness instance (N = 0, 1, 2, ...): a symbolic
    // VecDeque length makes every later read of the ring buffer a multi-object symbolic dereference
    // (measured: out of memory at 28 GB); item LENGTHS stay symbolic.
    let n: usize = N;
    let mut g = Ghost::<N> {
        n,
        ptr: [core::ptr::null(); N],
        len: [0; N],
        total: 0,
        eof: kani::any(),
        err: ErrTag::None,
        sender_closed: kani::any(),
        need_read: kani::any(),
        task: any_waker_slot([READER, OTHER]),
        io_task: any_waker_slot([FEEDER, OTHER]),
    };
    let mut i = 0;
    while i < N {
        if i < n {
            let l: usize = kani::any();
            kani::assume(l >= 1 && l <= ITEM_MAX);
            let b = Bytes::from_static(&POOL[i * ITEM_MAX..i * ITEM_MAX + l]);
            g.ptr[i] = b.as_ptr();
            g.len[i] = l;
            g.total += l;
            inner.items.push_back(b);
        }
        i += 1;
    }
    let err = any_err();
    g.err = tag_of(&err);
    kani::assume(!g.eof || g.sender_closed);
    kani::assume(g.err == ErrTag::None || g.sender_closed);
    kani::assume(g.need_read || g.total >= MAX_BUFFER_SIZE);
    inner.len = g.total;
    inner.eof = g.eof;
    inner.err = err;
    inner.sender_closed = g.sender_closed;
    inner.need_read = g.need_read;
    inner.task = g.task.map(mk_waker);
    inner.io_task = g.io_task.map(mk_waker);
    g
}

/// Real sender/receiver pair around an arbitrary I-state (the state is written in place: moving a
/// symbolic struct into the Rc allocation is what CBMC cannot digest).
/// Arbitrary I-state as a plain `Inner` (the lemmas below drive the methods of the real `Inner`
/// directly: going through `Rc<RefCell<_>>`/`Weak::upgrade` for every operation makes the drop glue of
/// the whole channel conditionally reachable and CBMC runs out of memory — measured, 16 GB).
/// The forwarding wrappers `PayloadSender::*` / `Payload::*` are checked separately (c07_wrap_*).
fn any_state<const N: usize>() -> (Inner, Ghost<N>) {
    let mut inner = Inner::new(false);
    let g = any_inner::<N>(&mut inner);
    (inner, g)
}

/// Representation invariant on the real object (used as post-condition: I is inductive).
fn check_invariant(inner: &Inner) {
    let mut sum = 0usize;
    let mut i = 0;
    while i < inner.items.len() {
        sum += inner.items[i].len();
        i += 1;
    }
    assert!(inner.len == sum, "I: len == sum of item lengths");
    assert!(!inner.eof || inner.sender_closed, "I: eof => sender_closed");
    assert!(inner.err.is_none() || inner.sender_closed, "I: err => sender_closed");
    assert!(inner.need_read || inner.len >= MAX_BUFFER_SIZE, "I: !need_read => buffer full");
}

/// The queue of the real object equals ghost items [from..g.n) followed by `extra` (if any).
fn check_queue<const N: usize>(
    inner: &Inner,
    g: &Ghost<N>,
    from: usize,
    front: Option<(*const u8, usize)>,
    back: Option<(*const u8, usize)>,
) {
    let expect = (g.n - from) + front.is_some() as usize + back.is_some() as usize;
    assert!(inner.items.len() == expect, "queue length");
    let mut k = 0;
    if let Some((p, l)) = front {
        assert!(inner.items[0].as_ptr() == p && inner.items[0].len() == l, "front item identity");
        k = 1;
    }
    let mut i = from;
    while i < N {
        if i < g.n {
            assert!(
                inner.items[k].as_ptr() == g.ptr[i] && inner.items[k].len() == g.len[i],
                "queued item identity and order"
            );
            k += 1;
        }
        i += 1;
    }
    if let Some((p, l)) = back {
        assert!(inner.items[k].as_ptr() == p && inner.items[k].len() == l, "back item identity");
    }
}


// ---------------------------------------------------------------------------------------------
// O-1 feed_data: appended at the back, exact identity, len/need_read bookkeeping, reader woken.
fn feed_data_lemma<const N: usize>() {
    let (mut inner, g) = any_state::<N>();
    let l: usize = kani::any();
    kani::assume(l <= ITEM_MAX); // empty chunk allowed
    let data = Bytes::from_static(&POOL[N * ITEM_MAX..N * ITEM_MAX + l]);
    let (dp, dl) = (data.as_ptr(), data.len());
    let w0 = g.task.map(wakes);

    inner.feed_data(data);

    check_queue(&inner, &g, 0, None, Some((dp, dl)));
    assert!(inner.len == g.total + l, "feed_data: len += |data|");
    assert!(inner.need_read == (g.total + l < MAX_BUFFER_SIZE), "feed_data: back-pressure flag");
    assert!(inner.eof == g.eof && tag_of(&inner.err) == g.err, "feed_data: ending untouched");
    assert!(inner.sender_closed == g.sender_closed);
    check_invariant(&inner);
    if let Some(id) = g.task {
        assert!(wakes(id) == w0.unwrap() + 1, "feed_data wakes the registered reader");
        assert!(inner.task.is_none(), "registration consumed");
    }
    kani::cover!(!inner.need_read, "feed_data: crosses the limit");
    kani::cover!(inner.need_read && l > 0, "feed_data: stays below the limit");
    kani::cover!(g.task.is_some(), "feed_data: reader registered");
    forget(inner);
}

// ---------------------------------------------------------------------------------------------
// O-2/O-3/O-4 poll_next: front item first, then error (once), then clean end only if eof, else
// Pending with the polling task registered and the feeder woken.
fn poll_next_lemma<const N: usize>() {
    let (mut inner, g) = any_state::<N>();
    let reader = mk_waker(READER);
    let cx = Context::from_waker(&reader);
    let io0 = g.io_task.map(wakes);

    let res = Pin::new(&mut inner).poll_next(&cx);

    match &res {
        Poll::Ready(Some(Ok(b))) => {
            assert!(g.n >= 1, "data only if something was queued");
            assert!(b.as_ptr() == g.ptr[0] && b.len() == g.len[0], "poll_next yields the FRONT item, exact");
            check_queue(&inner, &g, 1, None, None);
            assert!(inner.len == g.total - g.len[0]);
            assert!(inner.need_read == (inner.len < MAX_BUFFER_SIZE), "poll_next: back-pressure released below limit");
            assert!(inner.eof == g.eof && tag_of(&inner.err) == g.err, "ending untouched by a data read");
        }
        Poll::Ready(Some(Err(e))) => {
            assert!(g.n == 0, "error only after all queued data");
            assert!(g.err != ErrTag::None, "an error is reported only if one was set");
            let t = match e {
                PayloadError::Incomplete(None) => ErrTag::Incomplete,
                PayloadError::EncodingCorrupted => ErrTag::EncodingCorrupted,
                PayloadError::Overflow => ErrTag::Overflow,
                PayloadError::UnknownLength => ErrTag::UnknownLength,
                _ => ErrTag::Other,
            };
            assert!(t == g.err, "the error reported is the error that was set");
            assert!(inner.err.is_none(), "error reported once");
        }
        Poll::Ready(None) => {
            assert!(g.n == 0, "clean end only after all queued data");
            assert!(g.eof, "clean end only if end of body was signalled");
            assert!(g.err == ErrTag::None, "an error set is reported before any clean end");
        }
        Poll::Pending => {
            assert!(g.n == 0 && !g.eof && g.err == ErrTag::None, "Pending only when nothing to report");
            assert!(inner.need_read, "a waiting reader un-pauses the feeder");
            assert!(
                inner.task.as_ref().is_some_and(|w| w.will_wake(&reader)),
                "Pending => polling task registered"
            );
        }
    }
    // completeness: something queued => it is delivered; then error; then end; else Pending
    if g.n >= 1 {
        assert!(matches!(res, Poll::Ready(Some(Ok(_)))), "queued data is delivered before any ending");
    } else if g.err != ErrTag::None {
        assert!(matches!(res, Poll::Ready(Some(Err(_)))), "a set error is reported once the queue is empty");
    } else if g.eof {
        assert!(matches!(res, Poll::Ready(None)), "clean end reported after eof");
    } else {
        assert!(res.is_pending());
    }
    // feeder wake-up: a paused feeder is woken whenever the reader drains below the limit or waits
    if let Some(id) = g.io_task {
        let drained_below = matches!(res, Poll::Ready(Some(Ok(_)))) && inner.len < MAX_BUFFER_SIZE;
        if drained_below || res.is_pending() {
            assert!(wakes(id) == io0.unwrap() + 1, "paused feeder woken");
            assert!(inner.io_task.is_none());
        }
    }
    // a reader that drained the queue below the limit of a body that has not ended will be told about
    // the next event: it is registered already now (the connection reads more because need_read is set)
    if matches!(res, Poll::Ready(Some(Ok(_)))) && inner.need_read && !g.eof {
        assert!(inner.task.as_ref().is_some_and(|w| w.will_wake(&reader)), "reader registered after draining below limit");
    }
    check_invariant(&inner);
    kani::cover!(matches!(res, Poll::Ready(Some(Ok(_)))) && !inner.need_read, "poll_next: still above limit");
    kani::cover!(matches!(res, Poll::Ready(Some(Ok(_)))) && g.total >= MAX_BUFFER_SIZE && inner.need_read, "poll_next: drains below limit");
    kani::cover!(matches!(res, Poll::Ready(Some(Err(_)))), "poll_next: error");
    kani::cover!(matches!(res, Poll::Ready(None)), "poll_next: clean end");
    kani::cover!(res.is_pending() && g.io_task.is_some(), "poll_next: pending with paused feeder");
    kani::cover!(true, "harness end reached");
    forget(res);
    forget(inner);
}

// ---------------------------------------------------------------------------------------------
// O-2 endings: feed_eof / set_error / close_sender (= what PayloadSender::drop calls, see c07_wrap_*).
// eof is set ONLY by feed_eof.
#[derive(Clone, Copy, PartialEq, Eq, kani::Arbitrary)]
enum EndOp {
    FeedEof,
    SetError,
    DropSender,
}

fn ending_lemma<const N: usize>() {
    let (mut inner, g) = any_state::<N>();
    let op: EndOp = kani::any();
    let w0 = g.task.map(wakes);
    let mut set = ErrTag::None;
    match op {
        EndOp::FeedEof => inner.feed_eof(),
        EndOp::SetError => {
            let e = any_real_err();
            set = tag_of_err(&e);
            inner.set_error(e)
        }
        EndOp::DropSender => inner.close_sender(),
    }
    check_queue(&inner, &g, 0, None, None); // queued data never lost or reordered by an ending
    assert!(inner.len == g.total);
    assert!(inner.sender_closed, "every ending closes the sender side");
    match op {
        EndOp::FeedEof => {
            assert!(inner.eof);
            assert!(tag_of(&inner.err) == g.err);
        }
        EndOp::SetError => {
            assert!(inner.eof == g.eof, "only feed_eof signals a clean end");
            assert!(tag_of(&inner.err) == set, "the error set is the error stored");
        }
        EndOp::DropSender => {
            assert!(inner.eof == g.eof, "only feed_eof signals a clean end");
            if !g.sender_closed {
                // body was cut short: feeder vanished before signalling an ending
                assert!(tag_of(&inner.err) == ErrTag::Incomplete, "sender drop before end => Incomplete");
                assert!(!inner.eof);
            } else {
                assert!(tag_of(&inner.err) == g.err, "drop after an ending changes nothing");
            }
        }
    }
    if let Some(id) = g.task {
        let must_wake = match op {
            EndOp::DropSender => !g.sender_closed,
            _ => true,
        };
        if must_wake {
            assert!(wakes(id) >= w0.unwrap() + 1, "ending wakes the registered reader");
        }
    }
    check_invariant(&inner);
    kani::cover!(op == EndOp::DropSender && !g.sender_closed && g.task.is_some(), "drop of a live sender with waiting reader");
    kani::cover!(op == EndOp::FeedEof, "eof");
    kani::cover!(op == EndOp::SetError && g.eof, "error after eof");
    forget(inner);
}

fn tag_of_err(e: &PayloadError) -> ErrTag {
    match e {
        PayloadError::Incomplete(None) => ErrTag::Incomplete,
        PayloadError::EncodingCorrupted => ErrTag::EncodingCorrupted,
        PayloadError::Overflow => ErrTag::Overflow,
        PayloadError::UnknownLength => ErrTag::UnknownLength,
        _ => ErrTag::Other,
    }
}

// unread_data: pushed to the FRONT, so the next poll yields it first.
fn unread_lemma<const N: usize>() {
    let (mut inner, g) = any_state::<N>();
    let l: usize = kani::any();
    kani::assume(l <= ITEM_MAX);
    let data = Bytes::from_static(&POOL[N * ITEM_MAX..N * ITEM_MAX + l]);
    let (dp, dl) = (data.as_ptr(), data.len());
    inner.unread_data(data);
    check_queue(&inner, &g, 0, Some((dp, dl)), None);
    assert!(inner.len == g.total + l);
    assert!(inner.eof == g.eof && tag_of(&inner.err) == g.err && inner.sender_closed == g.sender_closed);
    check_invariant(&inner);
    let reader = mk_waker(READER);
    let cx = Context::from_waker(&reader);
    let res = Pin::new(&mut inner).poll_next(&cx);
    match &res {
        Poll::Ready(Some(Ok(b))) => assert!(b.as_ptr() == dp && b.len() == dl, "unread data comes back first"),
        _ => { assert!(false, "unread data must be delivered"); }
    }
    kani::cover!(true, "harness end reached");
    forget(res);
    forget(inner);
}

// ---------------------------------------------------------------------------------------------
// Wrappers: `PayloadSender::{feed_data, feed_eof, set_error, need_read, is_dropped, drop}` and
// `Payload::{poll_next, unread_data}` forward to the `Inner` methods above through Weak/Rc/RefCell.
// Checked from the state `Payload::create(false)` leaves (empty queue) with symbolic flags written in
// place; `recv_dropped` symbolic.  (With queued items these paths exhaust memory, see any_state.)
fn wrap_pair() -> (PayloadSender, Option<Payload>, bool, bool) {
    let (tx, rx) = Payload::create(false);
    let need_read: bool = kani::any();
    rx.inner.borrow_mut().need_read = need_read;
    let recv_dropped: bool = kani::any();
    let mut rx = Some(rx);
    if recv_dropped {
        drop(rx.take());
    }
    (tx, rx, recv_dropped, need_read)
}

/// O-4 feeder side: Pause iff receiver alive and need_read is false, and then the feeding task is
/// registered; Dropped iff the receiver is gone; is_dropped agrees.
#[kani::proof]
#[kani::unwind(3)]
fn c07_wrap_need_read() {
    let (tx, rx, recv_dropped, need_read) = wrap_pair();
    let feeder = mk_waker(FEEDER);
    let mut cx = Context::from_waker(&feeder);
    assert!(tx.is_dropped() == recv_dropped, "is_dropped <=> receiver gone");
    let st = tx.need_read(&mut cx);
    if recv_dropped {
        assert!(st == PayloadStatus::Dropped);
    } else {
        let inner = rx.as_ref().unwrap().inner.borrow();
        if need_read {
            assert!(st == PayloadStatus::Read);
        } else {
            assert!(st == PayloadStatus::Pause);
            assert!(
                inner.io_task.as_ref().is_some_and(|w| w.will_wake(&feeder)),
                "Pause => feeding task registered"
            );
        }
        assert!(inner.need_read == need_read);
    }
    kani::cover!(st == PayloadStatus::Pause, "need_read: pause");
    kani::cover!(st == PayloadStatus::Dropped, "need_read: dropped");
    kani::cover!(st == PayloadStatus::Read, "need_read: read");
    forget(tx);
    forget(rx);
}

/// Sender-side forwarders reach the matching `Inner` method (or are no-ops once the receiver is gone).
#[kani::proof]
#[kani::unwind(3)]
fn c07_wrap_sender_endings() {
    let (tx, rx, recv_dropped, _) = wrap_pair();
    let op: u8 = kani::any();
    kani::assume(op >= 1 && op < 4);
    let mut tx = Some(tx);
    match op {
        1 => tx.as_mut().unwrap().feed_eof(),
        2 => tx.as_mut().unwrap().set_error(PayloadError::Overflow),
        _ => drop(tx.take()), // Drop for PayloadSender
    }
    if !recv_dropped {
        let inner = rx.as_ref().unwrap().inner.borrow();
        match op {
            1 => {
                assert!(inner.eof && inner.sender_closed && inner.err.is_none());
            }
            2 => {
                assert!(tag_of(&inner.err) == ErrTag::Overflow && !inner.eof && inner.sender_closed);
            }
            _ => {
                assert!(tag_of(&inner.err) == ErrTag::Incomplete && !inner.eof && inner.sender_closed, "sender drop => close_sender");
            }
        }
    }
    kani::cover!(op == 3 && !recv_dropped, "sender dropped while receiver alive");
    kani::cover!(op == 1 && recv_dropped, "eof after receiver drop is a no-op");
    forget(tx);
    forget(rx);
}

// NOT harnessed (outside the claim, measured): the forwarders that move a chunk while the channel
// state lives behind Rc<RefCell<_>> — `PayloadSender::feed_data`, `Payload::unread_data`,
// `Payload::poll_next` returning data.  A heap-allocated `Inner` + `VecDeque::push_back` does not get
// through CBMC's propositional conversion (>120 s even fully concrete; the same call on a stack
// `Inner` takes 4 s).  They are one-line `shared.borrow_mut().<same method>(..)` forwards.

/// Receiver-side forwarder: polling an empty open channel registers the polling task.
fn wrap_receiver(unread: bool) {
    let (tx, mut rx) = Payload::create(false);
    let data = Bytes::from_static(&POOL[0..7]);
    let dp = data.as_ptr();
    let reader = mk_waker(READER);
    let mut cx = Context::from_waker(&reader);
    if unread {
        rx.unread_data(data);
        assert!(rx.inner.borrow().len == 7);
    }
    let res = Pin::new(&mut rx).poll_next(&mut cx);
    if unread {
        assert!(matches!(&res, Poll::Ready(Some(Ok(b))) if b.as_ptr() == dp));
    } else {
        assert!(res.is_pending());
        assert!(rx.inner.borrow().task.as_ref().is_some_and(|w| w.will_wake(&reader)));
    }
    kani::cover!(true, "harness end reached");
    forget(res);
    forget(tx);
    forget(rx);
}
#[kani::proof]
#[kani::unwind(3)]
fn c07_wrap_receiver_poll_empty() {
    wrap_receiver(false);
}

// ---------------------------------------------------------------------------------------------
// Base case of the induction: the states `Payload::create(eof)` / `Payload::empty()` produce satisfy I.
#[kani::proof]
#[kani::unwind(2)]
fn c07_init_invariant() {
    let eof: bool = kani::any();
    let (tx, rx) = Payload::create(eof);
    {
        let inner = rx.inner.borrow();
        check_invariant(&inner);
        assert!(inner.items.is_empty() && inner.eof == eof && inner.err.is_none());
    }
    let e = Payload::empty();
    {
        let inner = e.inner.borrow();
        check_invariant(&inner);
        assert!(inner.eof);
    }
    kani::cover!(eof, "created at eof");
    kani::cover!(!eof, "created open");
    forget(tx);
    forget(rx);
    forget(e);
}

// ---- harness instances: queue length concrete (0,1,2 quick; 3 thorough), everything else symbolic
#[kani::proof]
#[kani::unwind(3)]
fn c07_feed_data_n0() {
    feed_data_lemma::<0>();
}
#[kani::proof]
#[kani::unwind(4)]
fn c07_feed_data_n1() {
    feed_data_lemma::<1>();
}
#[kani::proof]
#[kani::unwind(5)]
fn c07_feed_data_n2() {
    feed_data_lemma::<2>();
}
#[kani::proof]
#[kani::unwind(6)]
fn c07_feed_data_n3_t() {
    feed_data_lemma::<3>();
}
// 4 queued items: the VecDeque's first growth (capacity 4 -> 8) happens on the next push
#[kani::proof]
#[kani::unwind(7)]
fn c07_feed_data_n4_t() {
    feed_data_lemma::<4>();
}
#[kani::proof]
#[kani::unwind(3)]
fn c07_poll_next_n0() {
    poll_next_lemma::<0>();
}
#[kani::proof]
#[kani::unwind(4)]
fn c07_poll_next_n1() {
    poll_next_lemma::<1>();
}
#[kani::proof]
#[kani::unwind(5)]
fn c07_poll_next_n2() {
    poll_next_lemma::<2>();
}
#[kani::proof]
#[kani::unwind(6)]
fn c07_poll_next_n3_t() {
    poll_next_lemma::<3>();
}
// 4 queued items: the VecDeque's first growth (capacity 4 -> 8) happens on the next push
#[kani::proof]
#[kani::unwind(7)]
fn c07_poll_next_n4_t() {
    poll_next_lemma::<4>();
}
#[kani::proof]
#[kani::unwind(3)]
fn c07_ending_n0() {
    ending_lemma::<0>();
}
#[kani::proof]
#[kani::unwind(4)]
fn c07_ending_n1() {
    ending_lemma::<1>();
}
#[kani::proof]
#[kani::unwind(5)]
fn c07_ending_n2() {
    ending_lemma::<2>();
}
#[kani::proof]
#[kani::unwind(6)]
fn c07_ending_n3_t() {
    ending_lemma::<3>();
}
// 4 queued items: the VecDeque's first growth (capacity 4 -> 8) happens on the next push
#[kani::proof]
#[kani::unwind(7)]
fn c07_ending_n4_t() {
    ending_lemma::<4>();
}
#[kani::proof]
#[kani::unwind(3)]
fn c07_unread_n0() {
    unread_lemma::<0>();
}
#[kani::proof]
#[kani::unwind(4)]
fn c07_unread_n1() {
    unread_lemma::<1>();
}
#[kani::proof]
#[kani::unwind(5)]
fn c07_unread_n2() {
    unread_lemma::<2>();
}
#[kani::proof]
#[kani::unwind(6)]
fn c07_unread_n3_t() {
    unread_lemma::<3>();
}
// 4 queued items: the VecDeque's first growth (capacity 4 -> 8) happens on the next push
#[kani::proof]
#[kani::unwind(7)]
fn c07_unread_n4_t() {
    unread_lemma::<4>();
}

#[cfg(test)]
mod playback {
    #[allow(unused_imports)]
    use super::*;
    include!(concat!(env!("VERIF_PLAYBACK"), "/actix_http__h1_payload.rs"));
}

