// crate: actix-router
// module: resource::verif_kani
//
// C10 O-2 (three-way agreement for static / prefix patterns, nested descent), C10 O-3 (u16 offset
// arithmetic of Path).
// ResourceDefs are built field by field with PatternType::Static: `ResourceDef::new` makes the regex
// engine reachable and the Kani compiler crashes on it (DESIGN.md §2.5).
use super::*;
include!(concat!(env!("VERIF_HARNESS"), "/common/tracing_stub.rs"));
use crate::Path;
use core::mem::forget;

const MAXP: usize = 6;

fn static_def(pattern: &'static str, is_prefix: bool, id: u16) -> ResourceDef {
    ResourceDef {
        id,
        name: None,
        patterns: Patterns::Single(String::new()),
        is_prefix,
        pat_type: PatternType::Static(String::from(pattern)),
        segments: Vec::new(),
    }
}

/// pattern's definition: static text matches itself; a prefix stops only at a segment boundary.
fn reference_match(pattern: &[u8], is_prefix: bool, path: &[u8]) -> Option<usize> {
    if path.len() < pattern.len() {
        return None;
    }
    let mut i = 0;
    while i < pattern.len() {
        if path[i] != pattern[i] {
            return None;
        }
        i += 1;
    }
    if path.len() == pattern.len() {
        Some(pattern.len())
    } else if is_prefix && path[pattern.len()] == b'/' {
        Some(pattern.len())
    } else {
        None
    }
}

fn ascii_path(bytes: &[u8; MAXP], n: usize) -> &str {
    let mut i = 0;
    while i < MAXP {
        kani::assume(bytes[i] < 128);
        i += 1;
    }
    unsafe { core::str::from_utf8_unchecked(&bytes[..n]) }
}

/// is_match <=> find_match.is_some() <=> capture_match_info, all == the pattern's definition; on a
/// match `skip` advances by exactly the matched length, otherwise the Path is untouched.
fn three_way(pattern: &'static str, n: usize) {
    let bytes: [u8; MAXP] = kani::any();
    let path = ascii_path(&bytes, n);
    let is_prefix: bool = kani::any();
    let def = static_def(pattern, is_prefix, 7);
    let want = reference_match(pattern.as_bytes(), is_prefix, &bytes[..n]);

    let a = def.is_match(path);
    let b = def.find_match(path);
    let mut p = Path::new(path);
    let c = def.capture_match_info(&mut p);

    assert!(b == want, "find_match == pattern definition (matched length = pattern length)");
    assert!(a == want.is_some(), "is_match agrees");
    assert!(c == want.is_some(), "capture_match_info agrees");
    if c {
        assert!(p.skip as usize == pattern.len(), "skip advanced by the matched length");
        assert!(p.unprocessed().len() == n - pattern.len());
    } else {
        assert!(p.skip == 0, "no match leaves the path untouched");
    }
    assert!(p.segments.is_empty(), "static patterns capture nothing");
    kani::cover!(want.is_some() && is_prefix && n > pattern.len(), "prefix match before a '/'");
    kani::cover!(want.is_none() && is_prefix && n > pattern.len(), "prefix rejected inside a segment");
    kani::cover!(want.is_some() && !is_prefix, "exact match");
    kani::cover!(true, "harness end reached");
    forget(def);
    forget(p);
}

// ---------------------------------------------------------------------------------------------
// NOT harnessed (measured, see DESIGN.md §4 C09): `Router::recognize_fn`.  The router keeps its routes in
// a `Vec<(ResourceDef, T, U)>`; a ResourceDef read back from that heap allocation is a byte-level
// object for CBMC, and even ONE route against a 2-byte path did not finish in 20 minutes (the same
// ResourceDef on the stack: 12-19 s for the three matching entry points).

/// nested descent: after a prefix match the inner router sees only the unprocessed rest; skips add up.
fn nested_lemma(n: usize) {
    let bytes: [u8; MAXP] = kani::any();
    let path = ascii_path(&bytes, n);
    let outer = static_def("/a", true, 0);
    let inner_exact = static_def("/b", false, 1);
    let mut p = Path::new(path);
    let m1 = outer.capture_match_info(&mut p);
    if m1 {
        let rest_len = p.unprocessed().len();
        assert!(rest_len == n - 2);
        let m2 = inner_exact.capture_match_info(&mut p);
        let want2 = reference_match(b"/b", false, &bytes[2..n]);
        assert!(m2 == want2.is_some(), "inner pattern is matched against the unprocessed part only");
        if m2 {
            assert!(p.skip == 4 && p.unprocessed().is_empty());
        } else {
            assert!(p.skip == 2, "inner mismatch keeps the outer position");
        }
        assert!(p.skip as usize <= n, "skip never exceeds the path length");
    }
    kani::cover!(m1 && p.skip == 4, "nested match");
    kani::cover!(true, "harness end reached");
    forget(p);
}

// ---------------------------------------------------------------------------------------------
// C10 O-3: offsets.  `Path::add` rebases a capture by `skip`; `get`/`iter` slice exactly that range.
// Path length up to the URI limit (65534) without materialising it: a static zero-free buffer.
fn offsets_lemma() {
    static BUF: [u8; 65_534] = [b'x'; 65_534];
    let len: usize = kani::any();
    kani::assume(len <= 65_534);
    let path: &str = unsafe { core::str::from_utf8_unchecked(&BUF[..len]) };
    let mut p = Path::new(path);
    let skip: u16 = kani::any();
    let begin: u16 = kani::any();
    let end: u16 = kani::any();
    // precondition established by the matchers: the capture lies inside unprocessed()
    kani::assume(skip as usize <= len);
    kani::assume(begin <= end && (end as usize) <= len - skip as usize);
    p.skip(skip);
    p.add("k", PathItem::Segment(begin, end));
    let v = p.get("k");
    match v {
        Some(s) => {
            assert!(s.len() == (end - begin) as usize, "captured value has exactly the matched length");
            assert!(s.as_ptr() == unsafe { BUF.as_ptr().add(skip as usize + begin as usize) }, "captured value starts at skip+begin");
        }
        None => assert!(false, "added parameter is retrievable"),
    }
    assert!(p.unprocessed().len() == len - skip as usize);
    kani::cover!(len == 65_534 && skip > 60_000 && end > 5_000, "offsets near the u16 limit");
    kani::cover!(true, "harness end reached");
    forget(p);
}

#[kani::proof]
#[kani::stub(tracing::callsite::DefaultCallsite::register, stub_tracing_register)]
#[kani::unwind(18)]
fn c10_static_three_way_short() {
    three_way("", 0);
    three_way("", 1);
    three_way("/", 1);
    three_way("/", 2);
    three_way("/a", 2);
    three_way("/a", 3);
}

#[kani::proof]
#[kani::stub(tracing::callsite::DefaultCallsite::register, stub_tracing_register)]
#[kani::unwind(18)]
fn c10_static_three_way_len4() {
    three_way("/a", 4);
    three_way("/a/", 4);
    three_way("/ab", 4);
}

#[kani::proof]
#[kani::stub(tracing::callsite::DefaultCallsite::register, stub_tracing_register)]
#[kani::unwind(18)]
fn c10_static_three_way_len6_t() {
    three_way("/a", 6);
    three_way("/a/", 6);
    three_way("/ab", 5);
}

#[kani::proof]
#[kani::stub(tracing::callsite::DefaultCallsite::register, stub_tracing_register)]
#[kani::unwind(18)]
fn c10_path_offsets() {
    offsets_lemma();
}

#[kani::proof]
#[kani::stub(tracing::callsite::DefaultCallsite::register, stub_tracing_register)]
#[kani::unwind(18)]
fn c10_nested_descent() {
    nested_lemma(2);
    nested_lemma(4);
    nested_lemma(5);
}

#[cfg(test)]
mod playback {
    #[allow(unused_imports)]
    use super::*;
    include!(concat!(env!("VERIF_PLAYBACK"), "/actix_router__resource.rs"));
}

