// crate: actix-router
// module: quoter::verif_kani
//
// C10 O-1 / C19 — partial percent-decoding (`Quoter::requote`) == a left-to-right reference decoder:
// every `%XY` with hex XY whose value is not a protected ASCII byte becomes that byte, nothing else
// changes, `None` iff nothing changed; hence '/' (protected by the router's quoter) never appears
// or disappears: segment boundaries do not move.
use super::*;
include!(concat!(env!("VERIF_HARNESS"), "/common/tracing_stub.rs"));
use core::mem::forget;

const MAXN: usize = 6;

fn hexv(c: u8) -> Option<u8> {
    match c {
        b'0'..=b'9' => Some(c - b'0'),
        b'a'..=b'f' => Some(c - b'a' + 10),
        b'A'..=b'F' => Some(c - b'A' + 10),
        _ => None,
    }
}

/// reference: returns (output, output length, changed)
fn reference(inp: &[u8], protected: &[u8]) -> ([u8; MAXN], usize, bool) {
    let mut out = [0u8; MAXN];
    let mut o = 0;
    let mut i = 0;
    let mut changed = false;
    while i < inp.len() {
        let mut emitted = false;
        if inp[i] == b'%' && i + 2 < inp.len() {
            if let (Some(h), Some(l)) = (hexv(inp[i + 1]), hexv(inp[i + 2])) {
                let v = (h << 4) | l;
                let mut prot = false;
                let mut k = 0;
                while k < protected.len() {
                    if protected[k] == v {
                        prot = true;
                    }
                    k += 1;
                }
                if !prot {
                    out[o] = v;
                    o += 1;
                    i += 3;
                    changed = true;
                    emitted = true;
                }
            }
        }
        if !emitted {
            out[o] = inp[i];
            o += 1;
            i += 1;
        }
    }
    (out, o, changed)
}

fn requote_lemma(n: usize, protected: &'static [u8]) {
    requote_lemma_over(n, protected, false)
}

/// `alphabet`: restrict every byte to {'%','2','5','F','B','4','1','x','/','+'} — the classes the
/// decoder distinguishes (escape introducer, hex digits that form protected and unprotected values, a
/// non-hex byte, the protected bytes themselves).  Used for the longer strings, where the full 256^n
/// space does not finish; stated as a bound in the evidence.
fn requote_lemma_over(n: usize, protected: &'static [u8], alphabet: bool) {
    let bytes: [u8; MAXN] = kani::any();
    if alphabet {
        let mut i = 0;
        while i < MAXN {
            kani::assume(matches!(bytes[i], b'%' | b'2' | b'5' | b'F' | b'B' | b'4' | b'1' | b'x' | b'/' | b'+'));
            i += 1;
        }
    }
    let q = Quoter::new(&[], protected);
    let r = q.requote(&bytes[..n]);
    let (want, wl, changed) = reference(&bytes[..n], protected);
    match &r {
        None => assert!(!changed, "None iff nothing had to be decoded"),
        Some(v) => {
            assert!(changed, "Some only if something was decoded");
            assert!(v.len() == wl, "decoded length == reference");
            let mut i = 0;
            while i < MAXN {
                if i < wl {
                    assert!(v[i] == want[i], "decoded bytes == reference");
                }
                i += 1;
            }
        }
    }
    // consequence used by the router: the number of '/' bytes is unchanged when '/' is protected
    if let Some(v) = &r {
        let mut a = 0;
        let mut b = 0;
        let mut i = 0;
        while i < MAXN {
            if i < n && bytes[i] == b'/' {
                a += 1;
            }
            if i < v.len() && v[i] == b'/' {
                b += 1;
            }
            i += 1;
        }
        if protected.len() >= 2 {
            assert!(a == b, "percent-decoding never creates or removes a '/' (segment boundaries do not move)");
        }
    }
    kani::cover!(r.is_some(), "requote: something decoded");
    kani::cover!(r.is_none() && n >= 3 && bytes[0] == b'%' && bytes[1] == b'2' && bytes[2] == b'F', "requote: protected escape kept");
    kani::cover!(true, "harness end reached");
    forget(r);
}

/// One symbolic protected ASCII byte `p` (so every cell of the 128-bit protected table is exercised),
/// every 3-byte input: decoded exactly when the escape is valid and its value is not `p`.
fn requote_symbolic_protected() {
    let bytes: [u8; MAXN] = kani::any();
    let p: u8 = kani::any();
    kani::assume(p < 128);
    let prot = [p];
    let q = Quoter::new(&[], &prot);
    let r = q.requote(&bytes[..3]);
    let esc = if bytes[0] == b'%' {
        match (hexv(bytes[1]), hexv(bytes[2])) {
            (Some(h), Some(l)) => Some((h << 4) | l),
            _ => None,
        }
    } else {
        None
    };
    match esc {
        Some(v) if v != p => {
            assert!(matches!(&r, Some(out) if out.len() == 1 && out[0] == v), "non-protected valid escape is decoded");
        }
        _ => assert!(r.is_none(), "protected or invalid escape is left alone"),
    }
    kani::cover!(esc == Some(p), "escape of the protected byte itself");
    kani::cover!(esc.is_some() && esc != Some(p) && p == b'@', "protected '@', other escape decoded");
    forget(r);
    forget(q);
}

// `%/+` is the protected set actix-router uses for paths (`Url`), see url.rs
#[kani::proof]
#[kani::stub(tracing::callsite::DefaultCallsite::register, stub_tracing_register)]
#[kani::unwind(8)]
fn c10_requote_len0_2() {
    requote_lemma(0, b"%/+");
    requote_lemma(1, b"%/+");
    requote_lemma(2, b"%/+");
}

// @timeout 2400
#[kani::proof]
#[kani::stub(tracing::callsite::DefaultCallsite::register, stub_tracing_register)]
#[kani::unwind(8)]
fn c10_requote_len3() {
    requote_lemma(3, b"%/+");
}

// @timeout 2400
#[kani::proof]
#[kani::stub(tracing::callsite::DefaultCallsite::register, stub_tracing_register)]
#[kani::unwind(8)]
fn c10_requote_alphabet_len4_t() {
    requote_lemma_over(4, b"%/+", true);
}

// @timeout 3000
// @mem 30
#[kani::proof]
#[kani::stub(tracing::callsite::DefaultCallsite::register, stub_tracing_register)]
#[kani::unwind(8)]
fn c10_requote_alphabet_len5_t() {
    requote_lemma_over(5, b"%/+", true);
}

// @timeout 3000
// @mem 30
#[kani::proof]
#[kani::stub(tracing::callsite::DefaultCallsite::register, stub_tracing_register)]
#[kani::unwind(8)]
fn c10_requote_alphabet_len6_t() {
    requote_lemma_over(6, b"%/+", true);
}

// @timeout 3000
// @mem 30
#[kani::proof]
#[kani::stub(tracing::callsite::DefaultCallsite::register, stub_tracing_register)]
#[kani::unwind(8)]
fn c10_requote_len4_t() {
    requote_lemma(4, b"%/+");
}

// @timeout 3000
// @mem 30
#[kani::proof]
#[kani::stub(tracing::callsite::DefaultCallsite::register, stub_tracing_register)]
#[kani::unwind(8)]
fn c10_requote_len5_t() {
    requote_lemma(5, b"%/+");
}

#[kani::proof]
#[kani::stub(tracing::callsite::DefaultCallsite::register, stub_tracing_register)]
#[kani::unwind(8)]
fn c10_requote_no_protected_len3_t() {
    requote_lemma(3, b"");
}

// (A harness on the private helpers `hex_pair_to_char` / `AsciiBitmap` was removed: it added nothing
// over the requote lemmas and made the whole crate's harness build depend on private names — seed C19b
// renamed the helper and turned every actix-router harness inconclusive.)

// @timeout 2400
#[kani::proof]
#[kani::stub(tracing::callsite::DefaultCallsite::register, stub_tracing_register)]
#[kani::unwind(8)]
fn c10_requote_symbolic_protected_len3() {
    requote_symbolic_protected();
}

#[cfg(test)]
mod playback {
    #[allow(unused_imports)]
    use super::*;
    include!(concat!(env!("VERIF_PLAYBACK"), "/actix_router__quoter.rs"));
}
