// crate: actix-router
// module: quoter::verif_kani
//
// C10 O-1 / C19 — partial percent-decoding (`Quoter::requote`) == a left-to-right reference decoder:
// every `%XY` with hex XY whose value is not a protected ASCII byte becomes that byte, nothing else
// changes, `None` iff nothing changed; hence '/' (protected by the router's quoter) never appears
// or disappears: segment boundaries do not move.
use super::*;
include!(concat!(env!("VERIF_HARNESS"), "/common/tracing_stub.rs"));
use core::mem::forget;

const MAXN: usize = 6;

fn hexv(c: u8) -> Option<u8> {
    match c {
        b'0'..=b'9' => Some(c - b'0'),
        b'a'..=b'f' => Some(c - b'a' + 10),
        b'A'..=b'F' => Some(c - b'A' + 10),
        _ => None,
    }
}

/// reference: returns (output, output length, changed)
fn reference(inp: &[u8], protected: &[u8]) -> ([u8; MAXN], usize, bool) {
    let mut out = [0u8; MAXN];
    let mut o = 0;
    let mut i = 0;
    let mut changed = false;
    while i < inp.len() {
        let mut emitted = false;
        if inp[i] == b'%' && i + 2 < inp.len() {
            if let (Some(h), Some(l)) = (hexv(inp[i + 1]), hexv(inp[i + 2])) {
                let v = (h << 4) | l;
                let mut prot = false;
                let mut k = 0;
                while k < protected.len() {
                    if protected[k] == v {
                        prot = true;
                    }
                    k += 1;
                }
                if !prot {
                    out[o] = v;
                    o += 1;
                    i += 3;
                    changed = true;
                    emitted = true;
                }
            }
        }
        if !emitted {
            out[o] = inp[i];
            o += 1;
            i += 1;
        }
    }
    (out, o, changed)
}

fn requote_lemma(n: usize, protected: &'static [u8]) {
    requote_lemma_over(n, protected, false)
}

/// `alphabet`: restrict every byte to {'%','2','5','F','B','4','1','x','/','+'} — the classes the
/// decoder distinguishes (escape introducer, hex digits that form protected and unprotected values, a
/// non-hex byte, the protected bytes themselves).  Used for the longer strings, where the full 256^n
/// space does not finish; stated as a bound in the evidence.
fn requote_lemma_over(n: usize, protected: &'static [u8], alphabet: bool) {
    let bytes: [u8; MAXN] = kani::any();
    if alphabet {
        let mut i = 0;
        while i < MAXN {
            kani::assume(matches!(bytes[i], b'%' | b'2' | b'5' | b'F' | b'B' | b'4' | b'1' | b'x' | b'/' | b'+'));
            i += 1;
        }
    }
    let q = Quoter::new(&[], protected);
    let r = q.requote(&bytes[..n]);
    let (want, wl, changed) = reference(&bytes[..n], protected);
    match &r {
        None => assert!(!changed, "None iff nothing had to be decoded"),
        Some(v) => {
            assert!(changed, "Some only if something was decoded");
            assert!(v.len() == wl, "decoded length == reference");
            let mut i = 0;
            while i < MAXN {
                if i < wl {
                    assert!(v[i] == want[i], "decoded bytes == reference");
                }
                i += 1;
            }
        }
    }
    // consequence used by the router: the number of '/' bytes is unchanged when '/' is protected
    if let Some(v) = &r {
        let mut a = 0;
        let mut b = 0;
        let mut i = 0;
        while i < MAXN {
            if i < n && bytes[i] == b'/' {
                a += 1;
            }
            if i < v.len() && v[i] == b'/' {
                b += 1;
            }
            i += 1;
        }
        if protected.len() >= 2 {
            assert!(a == b, "percent-decoding never creates or removes a '/' (segment boundaries do not move)");
        }
    }
    kani::cover!(r.is_some(), "requote: something decoded");
    kani::cover!(r.is_none() && n >= 3 && bytes[0] == b'%' && bytes[1] == b'2' && bytes[2] == b'F', "requote: protected escape kept");
    kani::cover!(true, "harness end reached");
    forget(r);
}

// `%/+` is the protected set actix-router uses for paths (`Url`), see url.rs
#[kani::proof]
#[kani::stub(tracing::callsite::DefaultCallsite::register, stub_tracing_register)]
#[kani::unwind(8)]
fn c10_requote_len0_2() {
    requote_lemma(0, b"%/+");
    requote_lemma(1, b"%/+");
    requote_lemma(2, b"%/+");
}

// @timeout 2400
#[kani::proof]
#[kani::stub(tracing::callsite::DefaultCallsite::register, stub_tracing_register)]
#[kani::unwind(8)]
fn c10_requote_len3() {
    requote_lemma(3, b"%/+");
}

// @timeout 2400
#[kani::proof]
#[kani::stub(tracing::callsite::DefaultCallsite::register, stub_tracing_register)]
#[kani::unwind(8)]
fn c10_requote_alphabet_len4() {
    requote_lemma_over(4, b"%/+", true);
}

// @timeout 3000
// @mem 30
#[kani::proof]
#[kani::stub(tracing::callsite::DefaultCallsite::register, stub_tracing_register)]
#[kani::unwind(8)]
fn c10_requote_alphabet_len5_t() {
    requote_lemma_over(5, b"%/+", true);
}

// @timeout 3000
// @mem 30
#[kani::proof]
#[kani::stub(tracing::callsite::DefaultCallsite::register, stub_tracing_register)]
#[kani::unwind(8)]
fn c10_requote_alphabet_len6_t() {
    requote_lemma_over(6, b"%/+", true);
}

// @timeout 3000
// @mem 30
#[kani::proof]
#[kani::stub(tracing::callsite::DefaultCallsite::register, stub_tracing_register)]
#[kani::unwind(8)]
fn c10_requote_len4_t() {
    requote_lemma(4, b"%/+");
}

// @timeout 3000
// @mem 30
#[kani::proof]
#[kani::stub(tracing::callsite::DefaultCallsite::register, stub_tracing_register)]
#[kani::unwind(8)]
fn c10_requote_len5_t() {
    requote_lemma(5, b"%/+");
}

#[kani::proof]
#[kani::stub(tracing::callsite::DefaultCallsite::register, stub_tracing_register)]
#[kani::unwind(8)]
fn c10_requote_no_protected_len3_t() {
    requote_lemma(3, b"");
}

/// hex pair decoding and the 128-bit protected table
#[kani::proof]
#[kani::stub(tracing::callsite::DefaultCallsite::register, stub_tracing_register)]
#[kani::unwind(4)]
fn c10_hex_pair_and_bitmap() {
    let a: u8 = kani::any();
    let b: u8 = kani::any();
    let r = hex_pair_to_char(a, b);
    match (hexv(a), hexv(b)) {
        (Some(h), Some(l)) => assert!(r == Some((h << 4) | l)),
        _ => assert!(r.is_none()),
    }
    let c: u8 = kani::any();
    let d: u8 = kani::any();
    kani::assume(c < 128 && d < 128);
    let mut m = AsciiBitmap::default();
    m.set_bit(c);
    assert!(m.bit_at(c));
    assert!(m.bit_at(d) == (c == d), "exactly the set bit is set");
    kani::cover!(r.is_some(), "valid hex pair");
}

#[cfg(test)]
mod playback {
    #[allow(unused_imports)]
    use super::*;
    include!(concat!(env!("VERIF_PLAYBACK"), "/actix_router__quoter.rs"));
}
