//! Each test demonstrates one KNOWN FINDING through the public API of the unchanged crates and
//! PASSES while the defect is present (it asserts the defective behaviour), so the suite documents the
//! findings without failing.  See /verif/known_findings.json and DESIGN.md §5.
use std::{io::Write as _, net::TcpListener, time::Duration};

use actix_codec::{Decoder as _, Encoder as _};
use actix_http::{body::BodySize, h1, Response, StatusCode};
use bytes::{Bytes, BytesMut};
use futures_util::StreamExt as _;

/// F1 (C17): server announces content-length 10, sends "abc", closes. awc reports Ok(b"abc").
#[actix_rt::test]
async fn f1_truncated_content_length_body_is_a_clean_end() {
    let lst = TcpListener::bind("127.0.0.1:0").unwrap();
    let addr = lst.local_addr().unwrap();
    std::thread::spawn(move || {
        let (mut s, _) = lst.accept().unwrap();
        let mut buf = [0u8; 1024];
        let _ = std::io::Read::read(&mut s, &mut buf);
        s.write_all(b"HTTP/1.1 200 OK\r\ncontent-length: 10\r\n\r\nabc").unwrap();
        // close
    });
    let mut res = awc::Client::new().get(format!("http://{addr}/")).send().await.unwrap();
    let body = res.body().await;
    // property C17 demands an error here
    assert_eq!(body.unwrap(), Bytes::from_static(b"abc"), "F1: truncated body accepted as complete");
}

fn encode(codec: &mut h1::Codec, status: StatusCode, size: BodySize, chunks: &[&'static [u8]]) -> BytesMut {
    let mut dst = BytesMut::new();
    let res = Response::new(status).drop_body();
    codec.encode(h1::Message::Item((res, size)), &mut dst).unwrap();
    for c in chunks {
        codec.encode(h1::Message::Chunk(Some(Bytes::from_static(c))), &mut dst).unwrap();
    }
    codec.encode(h1::Message::Chunk(None), &mut dst).unwrap();
    dst
}

/// F2 (C02): 204 with a sized body: the head carries no length but the body bytes follow it.
#[actix_rt::test]
async fn f2_bodiless_status_still_writes_body_bytes() {
    let mut codec = h1::Codec::default();
    let out = encode(&mut codec, StatusCode::NO_CONTENT, BodySize::Sized(5), &[b"hello"]);
    let s = String::from_utf8_lossy(&out).to_string();
    assert!(s.starts_with("HTTP/1.1 204 No Content\r\n"));
    assert!(!s.to_ascii_lowercase().contains("content-length"));
    assert!(s.ends_with("\r\n\r\nhello"), "F2: body bytes after a 204 head: {s:?}");
}

/// F3 (C02, FIXED): an empty chunk in the middle of a streamed body used to terminate the chunked
/// message ("2\r\nab\r\n0\r\n\r\n", "cd" dropped); with the fix the empty chunk contributes nothing.
#[actix_rt::test]
async fn f3_empty_mid_stream_chunk_does_not_end_chunked_body() {
    let mut codec = h1::Codec::default();
    let out = encode(&mut codec, StatusCode::OK, BodySize::Stream, &[b"ab", b"", b"cd"]);
    let s = String::from_utf8_lossy(&out).to_string();
    assert!(s.ends_with("\r\n\r\n2\r\nab\r\n2\r\ncd\r\n0\r\n\r\n"), "F3: {s:?}");
}

/// F10 (C15, FIXED): a multipart body truncated right after a CR inside field content used to leave
/// the field stream Pending forever; with the fix it ends with Error::Incomplete.
#[actix_rt::test]
async fn f10_truncated_multipart_field_errors_instead_of_hanging() {
    use actix_web::{http::header, test::TestRequest, FromRequest as _};
    let body = Bytes::from_static(b"--b\r\ncontent-disposition: form-data; name=\"a\"\r\n\r\nxx\r");
    let (req, mut pl) = TestRequest::post()
        .insert_header((header::CONTENT_TYPE, "multipart/form-data; boundary=b"))
        .set_payload(body)
        .to_http_parts();
    let mut mp = actix_multipart::Multipart::from_request(&req, &mut pl).await.unwrap();
    let mut field = mp.next().await.unwrap().unwrap();
    let first = tokio::time::timeout(Duration::from_secs(2), field.next()).await;
    assert_eq!(first.unwrap().unwrap().unwrap(), Bytes::from_static(b"xx"));
    let second = tokio::time::timeout(Duration::from_secs(2), field.next()).await;
    // before the fix: Err(Elapsed) (hang); after: Some(Err(Incomplete))
    assert!(matches!(second, Ok(Some(Err(_)))), "truncated field must end with an error: {second:?}");
}

/// F8 (C16, FIXED): `Range: bytes=-1` on an empty file used to underflow `offset + length - 1`
/// (panic in debug builds); with the fix the answer is 416.
#[actix_rt::test]
async fn f8_suffix_range_on_empty_file_is_416() {
    use actix_web::{http::header, test::TestRequest};
    let path = std::env::temp_dir().join(format!("verif-empty-{}", std::process::id()));
    std::fs::write(&path, b"").unwrap();
    let file = actix_files::NamedFile::open(&path).unwrap();
    let req = TestRequest::get().insert_header((header::RANGE, "bytes=-1")).to_http_request();
    let res = file.into_response(&req);
    let _ = std::fs::remove_file(&path);
    assert_eq!(res.status(), actix_web::http::StatusCode::RANGE_NOT_SATISFIABLE);
}

/// F11 (C15, FIXED): the chunk cut falls right after the "--" of a delimiter and the field is polled
/// before the next chunk arrives: "\r\n--" used to be delivered as content and the next part was merged
/// into the field. Found by the solver (harness c15_read_stream_boundary1_b4).
#[actix_rt::test]
async fn f11_cut_after_delimiter_dashes_does_not_merge_fields() {
    use actix_web::{error::PayloadError, http::header::{self, HeaderMap, HeaderValue}};
    use futures_util::stream;
    use std::task::Poll;
    let part1 = Bytes::from_static(b"--xyz\r\ncontent-disposition: form-data; name=\"a\"\r\n\r\nfirst\r\n--");
    let part2 = Bytes::from_static(b"xyz\r\ncontent-disposition: form-data; name=\"b\"\r\n\r\nsecond\r\n--xyz--\r\n");
    // chunk 1, then two Pendings (the field is polled in between), then chunk 2
    let mut step = 0;
    let body = stream::poll_fn(move |cx| {
        step += 1;
        match step {
            1 => Poll::Ready(Some(Ok::<_, PayloadError>(part1.clone()))),
            2 | 3 => {
                cx.waker().wake_by_ref();
                Poll::Pending
            }
            4 => Poll::Ready(Some(Ok(part2.clone()))),
            _ => Poll::Ready(None),
        }
    });
    let mut headers = HeaderMap::new();
    headers.insert(header::CONTENT_TYPE, HeaderValue::from_static("multipart/form-data; boundary=xyz"));
    let mut mp = actix_multipart::Multipart::new(&headers, body);
    let mut a = mp.next().await.unwrap().unwrap();
    let mut content = Vec::new();
    while let Some(chunk) = a.next().await {
        content.extend_from_slice(&chunk.unwrap());
    }
    assert_eq!(content, b"first", "field a must end at the delimiter");
    drop(a);
    let b = mp.next().await.unwrap().unwrap();
    assert_eq!(b.name(), Some("b"));
}
